package main

// Recorder for C08: a string w is written between double quotes, and as a bare word with a backslash before
// every special character; what arrives in the tree, in the inline SQL constant (as PostgreSQL decodes it) and in
// the parameter list is recorded as byte-code sequences.  TLC compares them with w (spec/JudgeQuote.tla).

import (
	"fmt"
	"regexp"
	"strconv"
	"strings"
	"unicode"
	"unicode/utf8"

	lucene "github.com/grindlemire/go-lucene"
)

func escapeSpecials(w string) string {
	var sb strings.Builder
	for _, r := range w {
		if !(r == '_' || unicode.IsLetter(r) || unicode.IsDigit(r)) {
			sb.WriteByte('\\')
		}
		sb.WriteRune(r)
	}
	return sb.String()
}

func looksNumeric(w string) bool {
	if _, err := strconv.Atoi(w); err == nil {
		return true
	}
	_, err := strconv.ParseFloat(w, 64)
	if err == nil {
		return true
	}
	// out-of-range numbers are numbers too
	if ne, ok := err.(*strconv.NumError); ok && ne.Err == strconv.ErrRange {
		return true
	}
	return false
}

func isKeyword(w string) bool {
	switch strings.ToUpper(w) {
	case "AND", "OR", "NOT", "TO":
		return true
	}
	return false
}

func leafOf(t Tree) map[string]any {
	out := map[string]any{"top": t["op"], "op": "NIL", "ty": "", "codes": []int{}, "col": []int{}}
	r, ok := t["r"].(Tree)
	l, ok2 := t["l"].(Tree)
	str := func(x any) string { s, _ := x.(string); return s }
	out["top"] = str(t["op"])
	if ok && ok2 {
		out["op"], out["ty"] = str(r["op"]), str(r["ty"])
		if v, isStr := r["v"].(string); isStr {
			out["codes"] = codes(v)
		}
		if v, isStr := l["v"].(string); isStr && l["ty"] == "col" {
			out["col"] = codes(v)
		}
	}
	return out
}

func paramRec(p any) map[string]any {
	switch v := p.(type) {
	case string:
		return map[string]any{"ty": "str", "codes": codes(v), "text": v}
	case int:
		return map[string]any{"ty": "int", "codes": []int{}, "text": strconv.Itoa(v)}
	case float64:
		return map[string]any{"ty": "float", "codes": []int{}, "text": fmtFloat(v)}
	}
	return map[string]any{"ty": fmt.Sprintf("%T", p), "codes": []int{}, "text": ""}
}

// listForm: the quoted value as one item of a value list, f:(<first> OR "w" OR zz) - first is the same text typed bare when
// that is a number (so that the list holds 7 and "7"), else the word yy.  Records the items of the IN node and the parameters.
var bareNumber = regexp.MustCompile(`^-?[0-9][0-9a-zA-Z._]*$`)

func listForm(r *recorder, w string) map[string]any {
	first := "yy"
	if looksNumeric(w) && bareNumber.MatchString(w) { // typed bare it is one number token
		first = w
	}
	q := "f:(" + first + " OR \"" + w + "\" OR zz)"
	pr := r.record(0, q, "")
	items := []any{}
	if its, ok := pr.Tree["items"].([]any); ok {
		for _, it := range its {
			t, _ := it.(Tree)
			rec := map[string]any{"op": "NIL", "ty": "", "codes": []int{}}
			if t != nil {
				rec["op"], rec["ty"] = t["op"], t["ty"]
				if v, isStr := t["v"].(string); isStr {
					rec["codes"] = codes(v)
				}
			}
			items = append(items, rec)
		}
	}
	out := map[string]any{"q": q, "outcome": pr.Outcome, "top": pr.Tree["op"], "items": items}
	var params []any
	sqlp := guard(func() (string, int, error) {
		s, ps, err := lucene.ToParameterizedPostgres(q)
		params = ps
		return s, len(ps), err
	})
	out["par_out"] = sqlp.Out
	prs := []any{}
	for _, p := range params {
		prs = append(prs, paramRec(p))
	}
	out["params"] = prs
	return out
}

// dfForm: the quoted value as a bare term under an operator, scoped by a default field:  "w" AND g:y  with WithDefaultField("dd").
func dfForm(r *recorder, w string) map[string]any {
	q := "\"" + w + "\" AND g:y"
	pr := r.record(0, q, "dd")
	out := map[string]any{"q": q, "outcome": pr.Outcome, "top": "", "lop": "", "op": "NIL", "ty": "", "codes": []int{}, "col": []int{}}
	str := func(x any) string { s, _ := x.(string); return s }
	out["top"] = str(pr.Tree["op"])
	if l, ok := pr.Tree["l"].(Tree); ok {
		out["lop"] = str(l["op"])
		if leaf, ok := l["r"].(Tree); ok {
			out["op"], out["ty"] = str(leaf["op"]), str(leaf["ty"])
			if v, isStr := leaf["v"].(string); isStr {
				out["codes"] = codes(v)
			}
		}
		if c, ok := l["l"].(Tree); ok {
			if v, isStr := c["v"].(string); isStr {
				out["col"] = codes(v)
			}
		}
	}
	var params []any
	sqlp := guard(func() (string, int, error) {
		s, ps, err := lucene.ToParameterizedPostgres(q, lucene.WithDefaultField("dd"))
		params = ps
		return s, len(ps), err
	})
	out["par_out"] = sqlp.Out
	prs := []any{}
	for _, p := range params {
		prs = append(prs, paramRec(p))
	}
	out["params"] = prs
	return out
}

// valueForms records everything C08 looks at for one query text.
func valueForms(r *recorder, q string) map[string]any {
	pr := r.record(0, q, "")
	out := map[string]any{"q": q, "outcome": pr.Outcome, "leaf": leafOf(pr.Tree)}
	sql := guard(func() (string, int, error) { s, err := lucene.ToPostgres(q); return s, len(s), err })
	out["sql_out"] = sql.Out
	out["sql"] = readSQL("")
	if sql.Out == "ok" {
		s, _ := lucene.ToPostgres(q)
		out["sql"] = readSQL(s)
	}
	var params []any
	sqlp := guard(func() (string, int, error) {
		s, ps, err := lucene.ToParameterizedPostgres(q)
		params = ps
		return s, len(ps), err
	})
	out["par_out"] = sqlp.Out
	prs := []any{}
	for _, p := range params {
		prs = append(prs, paramRec(p))
	}
	out["params"] = prs
	return out
}

// cmdQuoteEnum: every value string w up to -n symbols over the alphabet (no double quote, NUL or invalid byte).
// symText: the bytes of a symbol; "W:text" stands for the literal word text (values that mean something to SQL or Go:
// null, true, NaN ...), so that such a case replays like any other symbol sequence.
func symText(s string) string {
	if strings.HasPrefix(s, "W:") {
		return s[2:]
	}
	return symBytes[s]
}

var quoteWords = []string{"null", "NULL", "Null", "true", "FALSE", "nan", "NaN", "inf", "Infinity", "default", "DEFAULT", "select", "current_user",
	"and", "or", "not", "to", "And", "oR", "NOT", "TO", "nil", "undefined", "0x10", "1e5", "1_000", "e", "E1", ".5", "5.", "-", "--", "+1", "-0", "00", "007"}

func cmdQuoteEnum(args []string) {
	fs := newFlags("quote-enum", args)
	n := fs.Int("n", 2, "max symbols")
	alpha := fs.String("alphabet", "", "comma separated symbols")
	out := fs.String("out", "", "output ndjson")
	shard := fs.String("shard", "0/1", "i/k")
	random := fs.Int("random", 0, "random strings instead of enumeration")
	rlen := fs.Int("len", 40, "max length of random strings")
	seed := fs.Int64("seed", 1, "seed")
	words := fs.Bool("words", false, "the word list (null, true, NaN, keywords in every case ...) instead of the enumeration")
	fs.Parse(args)
	var si, sk int
	fmt.Sscanf(*shard, "%d/%d", &si, &sk)
	alphabet := strings.Split(*alpha, ",")
	r, closeFn := newRecorder(*out, false)
	defer closeFn()
	id, written := 0, 0
	run := func(seq []string) {
		var sb strings.Builder
		for _, s := range seq {
			sb.WriteString(symText(s))
		}
		w := sb.String()
		if strings.ContainsAny(w, "\"\x00") || !utf8.ValidString(w) {
			return
		}
		if looksNumeric(w) { // the number spelled bare is rendered first: nothing of that call may show in the quoted one
			valueForms(r, "f:"+w)
		}
		line := map[string]any{"id": id, "wsyms": append([]string{}, seq...), "w": codes(w), "quoted": valueForms(r, `f:"`+w+`"`), "listed": listForm(r, w), "dfterm": dfForm(r, w)}
		applicable := w != "" && !looksNumeric(w) && !isKeyword(w)
		line["esc_applicable"] = applicable
		if applicable {
			line["escaped"] = valueForms(r, "f:"+escapeSpecials(w))
		} else {
			line["escaped"] = map[string]any{"q": "", "outcome": "skip", "leaf": leafOf(Tree{"op": "NIL"}), "sql_out": "skip", "sql": readSQL(""), "par_out": "skip", "params": []any{}}
		}
		r.write(line)
		written++
	}
	if *words { // whole words, alone and next to one other symbol
		for _, w := range quoteWords {
			id++
			run([]string{"W:" + w})
			for _, a := range alphabet {
				id++
				run([]string{"W:" + w, a})
				id++
				run([]string{a, "W:" + w})
			}
		}
		summary(map[string]any{"inputs": written})
		return
	}
	if *random > 0 {
		rng := newRng(*seed)
		for i := 0; i < *random; i++ {
			id++
			l := rng.Intn(*rlen + 1)
			seq := make([]string, l)
			for j := range seq {
				seq[j] = alphabet[rng.Intn(len(alphabet))]
			}
			run(seq)
		}
	} else {
		seq := make([]string, 0, *n)
		var rec func()
		rec = func() {
			id++
			if id%sk == si {
				run(seq)
			}
			if len(seq) == *n {
				return
			}
			for _, a := range alphabet {
				seq = append(seq, a)
				rec()
				seq = seq[:len(seq)-1]
			}
		}
		rec()
	}
	summary(map[string]any{"inputs": written})
}

// cmdQuoteOne: one value string given as symbols (replay of a single case).
func cmdQuoteOne(args []string) {
	fs := newFlags("quote-one", args)
	syms := fs.String("syms", "", "comma separated symbols")
	out := fs.String("out", "", "output ndjson")
	fs.Parse(args)
	seq := []string{}
	if *syms != "" {
		seq = strings.Split(*syms, ",")
	}
	r, closeFn := newRecorder(*out, false)
	defer closeFn()
	var sb strings.Builder
	for _, s := range seq {
		sb.WriteString(symText(s))
	}
	w := sb.String()
	line := map[string]any{"id": 1, "wsyms": seq, "w": codes(w), "quoted": valueForms(r, `f:"`+w+`"`)}
	applicable := w != "" && !looksNumeric(w) && !isKeyword(w)
	line["esc_applicable"] = applicable
	if applicable {
		line["escaped"] = valueForms(r, "f:"+escapeSpecials(w))
	} else {
		line["escaped"] = map[string]any{"q": "", "outcome": "skip", "leaf": leafOf(Tree{"op": "NIL"}), "sql_out": "skip", "sql": readSQL(""), "par_out": "skip", "params": []any{}}
	}
	r.write(line)
	summary(map[string]any{"inputs": 1})
}
