package main

// Adversarial input families of C01, parameterised by a size n: deep nesting, long chains, operator runs,
// unbalanced and unterminated delimiters.  Defined in spec/Families.tla as token patterns; here as texts.

import (
	"strings"
	"time"
)

type family struct {
	name string
	gen  func(n int) string
}

var families = []family{
	{"open_parens", func(n int) string { return strings.Repeat("(", n) }},
	{"nested_parens", func(n int) string { return strings.Repeat("(", n) + "a" + strings.Repeat(")", n) }},
	{"not_chain", func(n int) string { return strings.Repeat("NOT ", n) + "a" }},
	{"plus_minus_run", func(n int) string { return strings.Repeat("+-", n/2) + "a" }},
	{"juxtaposition", func(n int) string { return strings.TrimSpace(strings.Repeat("a ", n)) }},
	{"and_chain", func(n int) string { return strings.Repeat("a:b AND ", n) + "c:d" }},
	{"dangling_and", func(n int) string { return strings.Repeat("a:b AND ", n) }},
	{"or_chain", func(n int) string { return strings.Repeat("a OR ", n) + "b" }},
	{"field_nest", func(n int) string { return strings.Repeat("a:(", n) + "b" + strings.Repeat(")", n) }},
	{"field_nest_open", func(n int) string { return strings.Repeat("a:(", n) }},
	{"square_nest", func(n int) string { return strings.Repeat("[", n) }},
	{"range_chain", func(n int) string { return strings.Repeat("a:[1 TO 2] ", n) }},
	{"quote_run", func(n int) string { return strings.Repeat("\"", n) }},
	{"slash_run", func(n int) string { return strings.Repeat("/", n) }},
	{"tilde_run", func(n int) string { return "a" + strings.Repeat("~", n) }},
	{"caret_run", func(n int) string { return "a" + strings.Repeat("^2", n) }},
	{"colon_run", func(n int) string { return strings.Repeat("a:", n) + "b" }},
	{"long_word", func(n int) string { return strings.Repeat("x", n) }},
	{"long_escape", func(n int) string { return strings.Repeat("\\x", n) }},
	{"long_quoted", func(n int) string { return "\"" + strings.Repeat("x ", n) + "\"" }},
	{"unterminated_quote", func(n int) string { return "\"" + strings.Repeat("x", n) }},
	{"value_list", func(n int) string { return "a:(" + strings.Repeat("x OR ", n) + "y)" }},
	{"not_parens", func(n int) string { return strings.Repeat("NOT(", n) + "a" + strings.Repeat(")", n) }},
	{"must_nest", func(n int) string { return strings.Repeat("+(", n) + "a:b" + strings.Repeat(")", n) }},
	{"close_parens", func(n int) string { return "a" + strings.Repeat(")", n) }},
	{"mixed_ops", func(n int) string { return strings.Repeat("a:b OR c:d AND NOT e:f ", n/3+1) }},
	{"invalid_utf8", func(n int) string { return strings.Repeat("\xff\xfe", n) }},
	{"nul_run", func(n int) string { return "a:" + strings.Repeat("\x00", n) }},
	{"minus_run", func(n int) string { return strings.Repeat("-", n) + "1" }},
	{"to_run", func(n int) string { return strings.Repeat("TO ", n) }},
	{"range_term_nest", func(n int) string { return "a" + strings.Repeat(":[1 TO 2]", n) }},
	{"compare_term_nest", func(n int) string { return "a" + strings.Repeat(":>1", n) }},
	{"list_term_nest", func(n int) string { return "a" + strings.Repeat(":(x OR y)", n) }},
	{"range_in_range", func(n int) string { return strings.Repeat("a:[", n) + "1" + strings.Repeat(" TO 2]", n) }},
	{"boost_fuzzy_run", func(n int) string { return "a" + strings.Repeat("~2^3", n/2+1) }},
	{"empty_phrases", func(n int) string { return strings.TrimSpace(strings.Repeat("\"\" ", n)) }},
	{"escaped_run", func(n int) string { return "a:" + strings.Repeat("\\*\\?", n) }},
}

// cmdParseFamilies: every family at every requested size; same output format as parse-texts, plus family and n.
func cmdParseFamilies(args []string) {
	fs := newFlags("parse-families", args)
	sizes := fs.String("sizes", "100,1000", "comma separated sizes")
	out := fs.String("out", "", "output ndjson")
	only := fs.String("only", "", "run only this family")
	jsonMax := fs.Int("json-max", 4000, "largest size at which json.Marshal is observed (it is quadratic in the nesting depth)")
	list := fs.Bool("list", false, "print the family names and exit")
	fs.Parse(args)
	if *list {
		names := []string{}
		for _, f := range families {
			names = append(names, f.name)
		}
		summary(map[string]any{"families": names})
		return
	}
	r, closeFn := newRecorder(*out, false)
	defer closeFn()
	id := 0
	for _, sz := range strings.Split(*sizes, ",") {
		n := atoiOr(sz, 100)
		// the watchdog allows for the quadratic cost of a failing reduce on a deep stack (measured: 0.3 s at 9*10^3 tokens)
		hangLimit = 20*time.Second + time.Duration(n/100)*time.Second
		for _, f := range families {
			if hangs >= 2 || (*only != "" && *only != f.name) {
				continue
			}
			id++
			q := f.gen(n)
			t0 := time.Now()
			a := r.record(id, q, "")
			tParse := time.Since(t0)
			skipJSON = n > *jsonMax
			observeAll(a)
			b := r.record(id, q, "df")
			observeAll(b)
			skipJSON = false
			a.Tree, b.Tree = Tree{"op": "NIL"}, Tree{"op": "NIL"} // deep trees are not needed by the C01 judge
			ms := time.Since(t0).Milliseconds()
			qs := q
			if len(qs) > 60 {
				qs = qs[:60] + "..."
			}
			toks := a.Toks
			if len(toks) > 8 {
				toks = toks[:8]
			}
			r.write(map[string]any{"id": id, "q": f.name + " n=" + sz + ": " + qs, "family": f.name, "n": n, "toks": toks, "df": "df",
				"res": slim(a), "resdf": slim(b), "ms": ms, "parse_ms": tParse.Milliseconds()})
			r.out.Flush()
		}
	}
	summary(map[string]any{"texts": id, "calls": 2 * id})
}

func atoiOr(s string, d int) int {
	n := 0
	for _, c := range s {
		if c < '0' || c > '9' {
			return d
		}
		n = n*10 + int(c-'0')
	}
	if n == 0 {
		return d
	}
	return n
}
