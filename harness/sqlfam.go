package main

// Recorder for the SQL properties (C02, C03, C04): renders a query inline and parameterized and lets
// PostgreSQL's parser read both texts.  Cases come from TLC generators (spec/GenSql.tla, spec/GenAdv.tla);
// every field of the case is passed through so the judge sees the expectation next to the observation.

import (
	"bufio"
	"encoding/json"
	"math/big"
	"os"
	"strconv"
	"strings"

	lucene "github.com/grindlemire/go-lucene"
)

func typedParam(p any) map[string]any {
	switch v := p.(type) {
	case string:
		return map[string]any{"ty": "str", "text": v, "n": 0, "exact": true, "codes": codes(v), "key": "", "fkey": ""}
	case int:
		n, ok := scaled(strconv.Itoa(v))
		return map[string]any{"ty": "int", "text": strconv.Itoa(v), "n": n, "exact": ok, "codes": []int{}, "key": ratKey(strconv.Itoa(v)), "fkey": f64Key(strconv.Itoa(v))}
	case float64:
		n, ok := scaled(strconv.FormatFloat(v, 'f', -1, 64))
		key := ""
		if r := new(big.Rat).SetFloat64(v); r != nil {
			key = r.String()
		}
		return map[string]any{"ty": "float", "text": fmtFloat(v), "n": n, "exact": ok, "codes": []int{}, "key": key, "fkey": strconv.FormatFloat(v, 'x', -1, 64)}
	}
	return map[string]any{"ty": "other", "text": "", "n": 0, "exact": false, "codes": []int{}, "key": "", "fkey": ""}
}

type rendered struct {
	Out    string           `json:"out"` // ok | err | panic
	Text   string           `json:"text"`
	Read   SQLRead          `json:"read"`
	Params []map[string]any `json:"params"`
	Later  []map[string]any `json:"params_later"` // the same returned slice projected again after later calls of the library
	raw    []any
}

func renderBoth(q, df string) (inline, param rendered) {
	inline = rendered{Read: readSQL(""), Params: []map[string]any{}, Later: []map[string]any{}}
	param = rendered{Read: readSQL(""), Params: []map[string]any{}, Later: []map[string]any{}}
	var s string
	o := guard(func() (string, int, error) {
		var err error
		if df != "" {
			s, err = lucene.ToPostgres(q, lucene.WithDefaultField(df))
		} else {
			s, err = lucene.ToPostgres(q)
		}
		return s, len(s), err
	})
	inline.Out = o.Out
	if o.Out == "ok" {
		inline.Text = s
		inline.Read = readSQL(s)
	}
	var ps []any
	var sp string
	o = guard(func() (string, int, error) {
		var err error
		if df != "" {
			sp, ps, err = lucene.ToParameterizedPostgres(q, lucene.WithDefaultField(df))
		} else {
			sp, ps, err = lucene.ToParameterizedPostgres(q)
		}
		return sp, len(ps), err
	})
	param.Out = o.Out
	if o.Out == "ok" {
		param.Text = sp
		param.Read = readSQL(sp)
		for _, p := range ps {
			param.Params = append(param.Params, typedParam(p))
		}
		param.raw = ps
	}
	return
}

// failingRenders: renders that fail half way (a NUL in the last item of a list, in the upper bound of a range, in the right
// operand of AND / OR): whatever they leave behind - scratch buffers, pooled slices - must not show in the next render.
func failingRenders() {
	qs := []string{"zf:(\"zz1\" OR \"zz2\x00\")", "zf:(7 OR 8 OR \"zz2\x00\")", "zf:[zz1 TO \"zz2\x00\"]", "zf:zz1 AND zg:\"\x00\"", "zf:zz1* OR (zg:7 AND NOT zh:\"\x00\")"}
	for _, q := range qs { // the parameterized renderer first: where it accepts the NUL it would tidy up after the inline one
		guard(func() (string, int, error) { s, ps, err := lucene.ToParameterizedPostgres(q); return s, len(ps), err })
	}
	for _, q := range qs {
		guard(func() (string, int, error) { s, err := lucene.ToPostgres(q); return s, len(s), err })
	}
}

// disturb: well-formed renders with values of every kind, made after a case's own render: the parameters a call returned
// belong to the caller and must read the same afterwards (params_later).
func disturb() {
	renderBoth("zq:zv AND zr:[101 TO 102] AND zs:zw* AND zt:(zx OR zy OR 103) AND zu:>1.5", "")
	renderBoth("zq:\"z v\" OR zr:{zz1 TO zz2}", "zdf")
}

// cmdSQLCases: one case per input line (a JSON object with at least "q"; optional "alt", "df").
func cmdSQLCases(args []string) {
	fs := newFlags("sql-cases", args)
	in := fs.String("in", "", "cases ndjson")
	out := fs.String("out", "", "output ndjson")
	fs.Parse(args)
	r, closeFn := newRecorder(*out, false)
	defer closeFn()
	f, err := os.Open(*in)
	if err != nil {
		fatal(err)
	}
	defer f.Close()
	sc := bufio.NewScanner(f)
	sc.Buffer(make([]byte, 1<<20), 1<<28)
	n := 0
	for sc.Scan() {
		var c map[string]any
		if err := json.Unmarshal(sc.Bytes(), &c); err != nil {
			fatal(err)
		}
		q, _ := c["q"].(string)
		if qc, ok := c["q_codes"].([]any); ok { // texts that are not ASCII travel as byte codes
			b := make([]byte, len(qc))
			for i, x := range qc {
				b[i] = byte(x.(float64))
			}
			q = string(b)
		}
		df, _ := c["df"].(string)
		if dc, ok := c["df_codes"].([]any); ok && len(dc) > 0 { // a default field that is not ASCII travels as byte codes
			b := make([]byte, len(dc))
			for i, x := range dc {
				b[i] = byte(x.(float64))
			}
			df = string(b)
		}
		if vals, ok := c["vals"].([]any); ok { // the exact value of every numeric value of the query (projection)
			for _, v := range vals {
				if m, ok := v.(map[string]any); ok {
					if ty, _ := m["ty"].(string); ty == "int" || ty == "float" {
						txt, _ := m["text"].(string)
						m["key"] = ratKey(txt)
					} else {
						m["key"] = ""
					}
				}
			}
		}
		// the same text is first rendered under another default field: nothing of that call may show in the next one
		renderBoth(q, "zz_other")
		// ... and calls whose (default field, query) pair concatenates to the same text as this one's, whatever the separator:
		// a memo keyed by such a concatenation would answer this call with the other call's tree
		for _, sep := range []string{":", "|", " ", "/", "\x00", ""} {
			if i := strings.Index(q, sep); i > 0 && i+len(sep) < len(q) {
				renderBoth(q[i+len(sep):], df+sep+q[:i])
			}
		}
		failingRenders()
		inline, param := renderBoth(q, df)
		pr := r.record(n, q, df)
		c["parse"] = pr.Outcome
		c["tree"] = pr.Tree
		if alt, ok := c["alt"].(string); ok && alt != "" {
			_, ap := renderBoth(alt, df)
			c["alt_param"] = map[string]any{"out": ap.Out, "text": ap.Text}
		} else {
			c["alt_param"] = map[string]any{"out": "none", "text": ""}
		}
		disturb()
		for _, p := range param.raw {
			param.Later = append(param.Later, typedParam(p))
		}
		c["inline"], c["param"] = inline, param
		r.write(c)
		n++
	}
	summary(map[string]any{"cases": n, "calls": 4 * n})
}
