package main

// Recorder for C14: many goroutines call the public entry points on private inputs and on SHARED expression
// values and the shared package-level driver; every call is logged at its begin and end (global atomic sequence
// number, goroutine, call id, digest of the result, digest of the shared state).  Built with -race by the driver.

import (
	"bufio"
	"crypto/sha1"
	"encoding/hex"
	"encoding/json"
	"fmt"
	"math/rand"
	"os"
	"runtime"
	"sort"
	"strings"
	"sync"
	"sync/atomic"

	lucene "github.com/grindlemire/go-lucene"
	"github.com/grindlemire/go-lucene/pkg/driver"
	"github.com/grindlemire/go-lucene/pkg/lucene/expr"
)

func digest(parts ...any) string {
	h := sha1.New()
	for _, p := range parts {
		b, _ := json.Marshal(p)
		h.Write(b)
		h.Write([]byte{0})
	}
	return hex.EncodeToString(h.Sum(nil))[:16]
}

type concCall struct {
	id string
	fn func() string
}

func safely(f func() string) (out string) {
	defer func() {
		if p := recover(); p != nil {
			out = "panic:" + fmt.Sprint(p)
		}
	}()
	return f()
}

// cmdConc: -corpus file (one JSON string per line) -g goroutines -per calls per goroutine -seed S -out trace
func cmdConc(args []string) {
	fs := newFlags("conc", args)
	corpus := fs.String("corpus", "", "queries, one JSON string per line")
	g := fs.Int("g", 8, "goroutines")
	per := fs.Int("per", 200, "calls per goroutine")
	seed := fs.Int64("seed", 1, "seed")
	out := fs.String("out", "", "trace ndjson")
	fullEvery := fs.Int("full-every", 10, "compute the digest of the whole shared state at every k-th end event")
	kinds := fs.String("kinds", "", "comma separated call kinds to keep (parse, parsedf, sqldf ...); empty = all")
	phase := fs.String("phase", "both", "seq = only the sequential baseline (a fresh process), conc = only the concurrent phase, both")
	fs.Parse(args)
	var queries []string
	f, err := os.Open(*corpus)
	if err != nil {
		fatal(err)
	}
	sc := bufio.NewScanner(f)
	sc.Buffer(make([]byte, 1<<20), 1<<26)
	for sc.Scan() {
		var q string
		if json.Unmarshal(sc.Bytes(), &q) == nil {
			queries = append(queries, q)
		}
	}
	f.Close()
	// shared expression values (shared between all goroutines) and the shared package-level driver
	var shared []*expr.Expression
	pg := driver.NewPostgresDriver()
	var calls []concCall
	needShared := *kinds == ""
	for _, k := range strings.Split(*kinds, ",") {
		switch k {
		case "render", "renderp", "str", "gostr", "json", "validate":
			needShared = true
		}
	}
	for i, q := range queries {
		q := q
		calls = append(calls,
			concCall{fmt.Sprintf("parse:%d", i), func() string {
				e, err := lucene.Parse(q)
				if err != nil {
					return "err"
				}
				return digest(dumpTree(e))
			}},
			concCall{fmt.Sprintf("parsedf:%d", i), func() string {
				e, err := lucene.Parse(q, lucene.WithDefaultField("dflt"))
				if err != nil {
					return "err"
				}
				return digest(dumpTree(e))
			}},
			// the same query under several other default fields (goroutines then differ in their option values)
			concCall{fmt.Sprintf("parsedf2:%d", i), func() string {
				e, err := lucene.Parse(q, lucene.WithDefaultField("title"))
				if err != nil {
					return "err"
				}
				return digest(dumpTree(e))
			}},
			concCall{fmt.Sprintf("sqldf:%d", i), func() string {
				s, err := lucene.ToPostgres(q, lucene.WithDefaultField("body"))
				return digest(s, err == nil)
			}},
			concCall{fmt.Sprintf("sqlpdf:%d", i), func() string {
				s, ps, err := lucene.ToParameterizedPostgres(q, lucene.WithDefaultField("my field"))
				return digest(s, fmt.Sprint(ps...), err == nil)
			}},
			concCall{fmt.Sprintf("sql:%d", i), func() string { s, err := lucene.ToPostgres(q); return digest(s, err == nil) }},
			concCall{fmt.Sprintf("sqlp:%d", i), func() string {
				s, ps, err := lucene.ToParameterizedPostgres(q)
				return digest(s, fmt.Sprint(ps...), err == nil)
			}})
		if !needShared { // nothing of this corpus is parsed before the goroutines start: tables filled on first sight stay cold
			continue
		}
		e, err := lucene.Parse(q)
		if err != nil {
			continue
		}
		k := len(shared)
		shared = append(shared, e)
		calls = append(calls,
			concCall{fmt.Sprintf("render:%d", k), func() string { s, err := pg.Render(e); return digest(s, err == nil) }},
			concCall{fmt.Sprintf("renderp:%d", k), func() string { s, ps, err := pg.RenderParam(e); return digest(s, fmt.Sprint(ps...), err == nil) }},
			concCall{fmt.Sprintf("str:%d", k), func() string { return digest(e.String()) }},
			concCall{fmt.Sprintf("gostr:%d", k), func() string { return digest(fmt.Sprintf("%#v", e)) }},
			concCall{fmt.Sprintf("json:%d", k), func() string { b, err := json.Marshal(e); return digest(string(b), err == nil) }},
			concCall{fmt.Sprintf("validate:%d", k), func() string { return digest(expr.Validate(e) == nil) }})
	}
	if *kinds != "" { // a narrower set of calls: many goroutines then make the same few kinds of call at the same time
		keep := map[string]bool{}
		for _, k := range strings.Split(*kinds, ",") {
			keep[k] = true
		}
		var sel []concCall
		for _, c := range calls {
			if keep[c.id[:strings.Index(c.id, ":")]] {
				sel = append(sel, c)
			}
		}
		calls = sel
	}
	sharedDigest := func() string {
		parts := []any{len(driver.Shared), len(pg.RenderFNs)}
		for _, e := range shared {
			parts = append(parts, dumpTree(e))
		}
		return digest(parts...)
	}
	w, closeFn := newRecorder(*out, false)
	defer closeFn()
	// sequential baseline
	// one line maps every call to its sequential result (TLC reads it as a function from call ids).  With -phase the
	// baseline comes from a process of its own, so the concurrent phase starts on a package nothing has touched yet
	// (no lazily filled table or cache is warmed by the baseline).
	if *phase != "conc" {
		s0 := sharedDigest()
		seqmap := map[string]any{}
		for _, c := range calls {
			seqmap[c.id] = safely(c.fn)
		}
		w.write(map[string]any{"ev": "seqmap", "m": seqmap})
		w.write(map[string]any{"ev": "shared0", "res": s0})
	}
	if *phase == "seq" {
		summary(map[string]any{"calls": len(calls), "shared_expressions": len(shared), "events": 0, "goroutines": 0})
		return
	}
	// concurrent phase.  Before it, this process customises a driver instance of its own, as a user of the package may: the
	// results of the package-level renderers are functions of their arguments alone, so nothing of that may show in them
	if *phase == "conc" {
		customiseOneDriver()
	}
	type event struct {
		Seq    int64  `json:"seq"`
		Ev     string `json:"ev"`
		G      string `json:"g"`
		Call   string `json:"call"`
		Res    string `json:"res"`
		Shared string `json:"shared"`
	}
	var seq int64
	var ends int64
	logs := make([][]event, *g)
	var wg sync.WaitGroup
	start := make(chan struct{})
	for gi := 0; gi < *g; gi++ {
		wg.Add(1)
		go func(gi int) {
			defer wg.Done()
			rng := rand.New(rand.NewSource(*seed*1000 + int64(gi)))
			name := fmt.Sprintf("g%d", gi)
			<-start
			for k := 0; k < *per; k++ {
				c := calls[rng.Intn(len(calls))]
				logs[gi] = append(logs[gi], event{Seq: atomic.AddInt64(&seq, 1), Ev: "begin", G: name, Call: c.id})
				if rng.Intn(4) == 0 {
					runtime.Gosched()
				}
				res := safely(c.fn)
				sh := "skip"
				if atomic.AddInt64(&ends, 1)%int64(*fullEvery) == 0 {
					sh = sharedDigest()
				}
				logs[gi] = append(logs[gi], event{Seq: atomic.AddInt64(&seq, 1), Ev: "end", G: name, Call: c.id, Res: res, Shared: sh})
			}
		}(gi)
	}
	close(start)
	wg.Wait()
	var all []event
	for _, l := range logs {
		all = append(all, l...)
	}
	sort.Slice(all, func(i, j int) bool { return all[i].Seq < all[j].Seq })
	// the final state of everything shared, attributed to the last end event
	final := sharedDigest()
	for i := len(all) - 1; i >= 0; i-- {
		if all[i].Ev == "end" {
			all[i].Shared = final
			break
		}
	}
	for _, e := range all {
		w.write(e)
	}
	summary(map[string]any{"calls": len(calls), "shared_expressions": len(shared), "events": len(all), "goroutines": *g})
}
