package main

// Projections of real go-lucene values into the record shapes the TLA+ specification uses
// (spec/Expr.tla, spec/Grammar.tla).  Nothing here judges anything: the harness records, TLC decides.

import (
	"bytes"
	"encoding/json"
	"fmt"
	"math"
	"reflect"
	"strconv"
	"unicode/utf8"

	"github.com/grindlemire/go-lucene/internal/lex"
	"github.com/grindlemire/go-lucene/pkg/lucene/expr"
)

// Tree is the uniform tree record; absent fields are omitted so that TLC record equality works.
type Tree map[string]any

func bad(why string) Tree { return Tree{"op": "BAD", "why": why} }

func fmtFloat(f float64) string { return strconv.FormatFloat(f, 'g', -1, 64) }

func sign(f float64) string {
	switch {
	case f > 0:
		return "p"
	case f < 0:
		return "n"
	case f == 0:
		return "z"
	}
	return "x"
}

func leafRec(op string, v any) Tree {
	switch x := v.(type) {
	case string:
		return Tree{"op": op, "ty": "str", "v": x, "sg": "x"}
	case expr.Column:
		return Tree{"op": op, "ty": "col", "v": string(x), "sg": "x"}
	case int:
		return Tree{"op": op, "ty": "int", "v": strconv.Itoa(x), "sg": sign(float64(x))}
	case float64:
		return Tree{"op": op, "ty": "float", "v": fmtFloat(x), "sg": sign(x)}
	case bool:
		return Tree{"op": op, "ty": "bool", "v": strconv.FormatBool(x), "sg": "x"}
	case nil:
		return bad("nil leaf value")
	}
	return Tree{"op": op, "ty": "other", "v": fmt.Sprintf("%T", v), "sg": "x"}
}

var opNames = map[expr.Operator]string{
	expr.And: "AND", expr.Or: "OR", expr.Equals: "EQUALS", expr.Like: "LIKE", expr.Not: "NOT",
	expr.Range: "RANGE", expr.Must: "MUST", expr.MustNot: "MUST_NOT", expr.Boost: "BOOST",
	expr.Fuzzy: "FUZZY", expr.Literal: "LIT", expr.Wild: "WILD", expr.Regexp: "REGEXP",
	expr.Greater: "GREATER", expr.Less: "LESS", expr.GreaterEq: "GREATER_EQ", expr.LessEq: "LESS_EQ",
	expr.In: "IN", expr.List: "LIST",
}

// suffixArgs reads the distance of a fuzzy node / the power of a boost node.  The fields are unexported: they are read by name
// when they still have the names known here, otherwise through the public JSON encoding of a shallow copy of the node (the
// members "distance" and "power", omitted when 1), so that renaming an internal field does not break the recorder.
func suffixArgs(e *expr.Expression) (dist int64, pow float64) {
	v := reflect.ValueOf(e).Elem()
	fd, bp := v.FieldByName("fuzzyDistance"), v.FieldByName("boostPower")
	if fd.IsValid() && bp.IsValid() && fd.CanInt() && bp.CanFloat() {
		return fd.Int(), bp.Float()
	}
	return suffixArgsJSON(e)
}

func suffixArgsJSON(e *expr.Expression) (dist int64, pow float64) {
	dist, pow = 1, 1
	tmp := *e
	tmp.Left, tmp.Right = "x", nil
	b, err := json.Marshal(tmp)
	if err != nil {
		return
	}
	var m struct {
		D *int64   `json:"distance"`
		P *float64 `json:"power"`
	}
	if json.Unmarshal(b, &m) == nil {
		if m.D != nil {
			dist = *m.D
		}
		if m.P != nil {
			pow = *m.P
		}
	}
	return
}

// dumpTree projects an expression into the uniform record; any shape outside the documented
// tree type becomes a BAD node (which no REF predicate accepts).
func dumpTree(in any) Tree {
	e, ok := in.(*expr.Expression)
	if !ok {
		return bad(fmt.Sprintf("not an expression: %T", in))
	}
	if e == nil {
		return bad("nil expression")
	}
	name, ok := opNames[e.Op]
	if !ok {
		return bad(fmt.Sprintf("operator %d", int(e.Op)))
	}
	switch e.Op {
	case expr.Literal, expr.Wild, expr.Regexp:
		if e.Right != nil {
			return bad("leaf with right side")
		}
		return leafRec(name, e.Left)
	case expr.And, expr.Or, expr.Equals, expr.Like, expr.Greater, expr.Less, expr.GreaterEq, expr.LessEq:
		return Tree{"op": name, "l": dumpTree(e.Left), "r": dumpTree(e.Right)}
	case expr.Not, expr.Must, expr.MustNot:
		if e.Right != nil {
			return bad("unary with right side")
		}
		return Tree{"op": name, "l": dumpTree(e.Left)}
	case expr.Fuzzy:
		if e.Right != nil {
			return bad("unary with right side")
		}
		return Tree{"op": name, "l": dumpTree(e.Left), "p": strconv.FormatInt(func() int64 { d, _ := suffixArgs(e); return d }(), 10)}
	case expr.Boost:
		if e.Right != nil {
			return bad("unary with right side")
		}
		return Tree{"op": name, "l": dumpTree(e.Left), "p": fmtFloat(func() float64 { _, p := suffixArgs(e); return p }())}
	case expr.Range:
		b, ok := e.Right.(*expr.RangeBoundary)
		if !ok || b == nil {
			return bad("range without boundary")
		}
		return Tree{"op": name, "l": dumpTree(e.Left), "lo": dumpTree(b.Min), "hi": dumpTree(b.Max), "inc": b.Inclusive}
	case expr.In:
		r, ok := e.Right.(*expr.Expression)
		if !ok || r == nil || r.Op != expr.List || r.Right != nil {
			return bad("IN without list")
		}
		vals, ok := r.Left.([]*expr.Expression)
		if !ok {
			return bad("list without items")
		}
		items := []any{}
		for _, v := range vals {
			items = append(items, dumpTree(v))
		}
		return Tree{"op": name, "l": dumpTree(e.Left), "items": items}
	}
	return bad("standalone " + name)
}

// Tok is the token record of spec/Grammar.tla: t = non-terminal type or terminal kind, v = the value
// the token denotes, pv = its numeric value as float64 text (numbers only), raw = the text typed.
type Tok struct {
	T   string `json:"t"`
	V   string `json:"v"`
	PV  string `json:"pv"`
	Raw string `json:"raw,omitempty"`
}

var ntNames = map[lex.TokType]string{
	lex.TEqual: "EQUAL", lex.TGreater: "GREATER", lex.TLess: "LESS", lex.TColon: "COLON", lex.TPlus: "PLUS",
	lex.TMinus: "MINUS", lex.TTilde: "TILDE", lex.TCarrot: "CARROT", lex.TNot: "NOT", lex.TAnd: "AND",
	lex.TOr: "OR", lex.TRParen: "RPAREN", lex.TLParen: "LPAREN", lex.TLCurly: "LCURLY", lex.TRCurly: "RCURLY",
	lex.TTO: "TO", lex.TLSquare: "LSQUARE", lex.TRSquare: "RSQUARE", lex.TEOF: "EOF", lex.TErr: "ERR",
}

func hasUnescapedWildcard(s string) bool {
	for i := 0; i < len(s); i++ {
		if s[i] == '\\' {
			i++
		} else if s[i] == '*' || s[i] == '?' {
			return true
		}
	}
	return false
}

// unescapeRef: what a bare word denotes once every escaping backslash is removed (property C08).
func unescapeRef(s string) string {
	out := make([]byte, 0, len(s))
	for i := 0; i < len(s); i++ {
		if s[i] == '\\' {
			i++
			if i >= len(s) {
				break
			}
		}
		out = append(out, s[i])
	}
	return string(out)
}

func numKind(base string, f float64) string {
	switch {
	case f > 0:
		return base
	case f < 0:
		return "n" + base
	}
	return "z" + base
}

// classify says what a lexer token denotes according to the documented syntax (not by calling
// parseLiteral): a quoted string, a regexp, a number, a wildcard pattern or a plain word.
func classify(t lex.Token) Tok {
	if n, ok := ntNames[t.Typ]; ok {
		return Tok{T: n, V: n, Raw: t.Val}
	}
	switch t.Typ {
	case lex.TQuoted:
		v := t.Val
		if len(v) >= 2 && v[0] == '"' {
			v = v[1 : len(v)-1]
		}
		return Tok{T: "quoted", V: v, Raw: t.Val}
	case lex.TRegexp:
		return Tok{T: "regexp", V: t.Val, Raw: t.Val}
	}
	if n, err := strconv.Atoi(t.Val); err == nil {
		return Tok{T: numKind("int", float64(n)), V: strconv.Itoa(n), PV: fmtFloat(float64(n)), Raw: t.Val}
	}
	if f, err := strconv.ParseFloat(t.Val, 64); err == nil && !math.IsNaN(f) && !math.IsInf(f, 0) {
		return Tok{T: numKind("float", f), V: fmtFloat(f), PV: fmtFloat(f), Raw: t.Val}
	}
	if t.Val == "*" {
		return Tok{T: "star", V: "*", Raw: t.Val}
	}
	if hasUnescapedWildcard(t.Val) {
		return Tok{T: "wild", V: t.Val, Raw: t.Val}
	}
	return Tok{T: "word", V: unescapeRef(t.Val), Raw: t.Val}
}

// lexAll runs the real lexer over the input (bounded, so a lexer that never reaches EOF shows up
// as such instead of hanging the harness).
func lexAll(q string) (toks []Tok, lexErr bool, runaway bool) {
	defer func() {
		if p := recover(); p != nil { // a panicking lexer: report what was lexed so far plus an error token
			toks = append(toks, Tok{T: "ERR", V: "ERR", Raw: "lexer panic"})
			lexErr = true
		}
	}()
	l := lex.Lex(q)
	for i := 0; i <= len(q)+2; i++ {
		t := l.Next()
		if t.Typ == lex.TEOF {
			return toks, lexErr, false
		}
		toks = append(toks, classify(t))
		if t.Typ == lex.TErr {
			return toks, true, false
		}
	}
	return toks, lexErr, true
}

// asciiJSON marshals v with every non-ASCII rune written as a \u escape (TLC's Json module reads those
// back faithfully, while raw multi-byte text is mangled on its way through TLC).
func asciiJSON(v any) []byte {
	var buf bytes.Buffer
	enc := json.NewEncoder(&buf)
	enc.SetEscapeHTML(false)
	if err := enc.Encode(v); err != nil {
		panic(err)
	}
	b := bytes.TrimRight(buf.Bytes(), "\n")
	ascii := true
	for _, c := range b {
		if c >= 0x80 {
			ascii = false
			break
		}
	}
	if ascii {
		return b
	}
	out := make([]byte, 0, len(b)+16)
	for i := 0; i < len(b); {
		c := b[i]
		if c < 0x80 {
			out = append(out, c)
			i++
			continue
		}
		r, w := utf8.DecodeRune(b[i:])
		i += w
		if r >= 0x10000 {
			r -= 0x10000
			out = append(out, fmt.Sprintf("\\u%04x\\u%04x", 0xd800+(r>>10), 0xdc00+(r&0x3ff))...)
		} else {
			out = append(out, fmt.Sprintf("\\u%04x", r)...)
		}
	}
	return out
}

func codes(s string) []int {
	out := make([]int, 0, len(s))
	for i := 0; i < len(s); i++ {
		out = append(out, int(s[i]))
	}
	return out
}
