package main

// Recorder for C15: driver.Base{RenderFNs: m}.Render(e) with tracing functions.  Every call of a registered
// function is logged (operator, arguments, returned text); spec/Fold.tla says what the log must be.

import (
	"bufio"
	"encoding/json"
	"fmt"
	"os"
	"sort"
	"strconv"
	"strings"
	"unicode/utf8"

	"github.com/grindlemire/go-lucene/pkg/driver"
	"github.com/grindlemire/go-lucene/pkg/lucene/expr"
)

type foldCall struct {
	Op  string `json:"op"`
	L   string `json:"l"`
	R   string `json:"r"`
	Ret string `json:"ret"`
}

var allOps = []expr.Operator{expr.And, expr.Or, expr.Equals, expr.Like, expr.Not, expr.Range, expr.Must, expr.MustNot, expr.Boost,
	expr.Fuzzy, expr.Literal, expr.Wild, expr.Regexp, expr.Greater, expr.Less, expr.GreaterEq, expr.LessEq, expr.In, expr.List}

// traceRun renders e with a map that registers a tracing function under label labels[op] for every op in labels.
func traceRun(e *expr.Expression, labels map[string]string) map[string]any {
	return traceRunFail(e, labels, 0)
}

// traceRunFail: as traceRun, but the failAt-th call (counted over all functions; 0 = none) returns an error, as a
// user's render function may.
func traceRunFail(e *expr.Expression, labels map[string]string, failAt int) map[string]any {
	calls := []foldCall{}
	k := 0
	fns := map[expr.Operator]driver.RenderFN{}
	for _, op := range allOps {
		name := opNames[op]
		lab, ok := labels[name]
		if !ok {
			continue
		}
		fns[op] = func(l, r string) (string, error) {
			k++
			ret := fmt.Sprintf("<%s:%d>", lab, k)
			if lab == "BLANK" { // a function that renders its node to nothing (a driver that drops this operator)
				ret = ""
			}
			if k == failAt {
				calls = append(calls, foldCall{Op: name, L: l, R: r, Ret: ""})
				return "", fmt.Errorf("render function %s refuses", name)
			}
			calls = append(calls, foldCall{Op: name, L: l, R: r, Ret: ret})
			return ret, nil
		}
	}
	out := map[string]any{}
	func() {
		defer func() {
			if p := recover(); p != nil {
				out["outcome"] = "panic"
				out["out"] = ""
			}
		}()
		s, err := driver.Base{RenderFNs: fns}.Render(e)
		out["out"] = s
		out["outcome"] = "ok"
		if err != nil {
			out["outcome"] = "err"
		}
	}()
	out["calls"] = calls
	return out
}

func opsOfTree(t Tree, set map[string]bool) {
	op, _ := t["op"].(string)
	set[op] = true
	for _, k := range []string{"l", "r", "lo", "hi"} {
		if c, ok := t[k].(Tree); ok {
			opsOfTree(c, set)
		}
	}
	if items, ok := t["items"].([]any); ok {
		set["LIST"] = true
		for _, it := range items {
			if c, ok := it.(Tree); ok {
				opsOfTree(c, set)
			}
		}
	}
}

// customiseOneDriver registers extra functions on ONE driver instance, as a user of the package may: it must not
// leak into other drivers or into the package-level renderers (C15: ToPostgres keeps failing on ~ and ^).
func customiseOneDriver() {
	d := driver.NewPostgresDriver()
	d.RenderFNs[expr.Fuzzy] = func(l, r string) (string, error) { return "FUZZY(" + l + ")", nil }
	d.RenderFNs[expr.Boost] = func(l, r string) (string, error) { return "BOOST(" + l + ")", nil }
	d.RenderFNs[expr.Equals] = func(l, r string) (string, error) { return l + " == " + r, nil }
}

// hasUndefined: some node of the (decoded) expression has the zero operator and enough structure to be rendered
func hasUndefined(in any) bool {
	switch e := in.(type) {
	case *expr.Expression:
		if e == nil {
			return false
		}
		if e.Op == expr.Undefined {
			return true
		}
		return hasUndefined(e.Left) || hasUndefined(e.Right)
	case []*expr.Expression:
		for _, x := range e {
			if hasUndefined(x) {
				return true
			}
		}
	}
	return false
}

func hasBad(t Tree) bool {
	if t["op"] == "BAD" || t["ty"] == "other" {
		return true
	}
	// column names on which serialize() itself fails (empty, or holding a double quote) are C02's subject, not the fold discipline
	if v, ok := t["v"].(string); ok {
		if t["ty"] == "col" && (v == "" || strings.Contains(v, "\"")) {
			return true
		}
	}
	for _, k := range []string{"l", "r", "lo", "hi"} {
		if c, ok := t[k].(Tree); ok && hasBad(c) {
			return true
		}
	}
	if items, ok := t["items"].([]any); ok {
		for _, it := range items {
			if c, ok := it.(Tree); ok && hasBad(c) {
				return true
			}
		}
	}
	return false
}

// foldVariants renders e with every operator traced, then each operator of the tree removed / overridden.
func foldVariants(e *expr.Expression, tree Tree) []any {
	full := map[string]string{}
	for _, op := range allOps {
		full[opNames[op]] = opNames[op]
	}
	set := map[string]bool{}
	opsOfTree(tree, set)
	ops := []string{}
	for op := range set {
		ops = append(ops, op)
	}
	sort.Strings(ops)
	tag := func(m map[string]any, mode, op string) map[string]any { m["mode"], m["mop"] = mode, op; return m }
	variants := []any{tag(traceRun(e, full), "all", "")}
	for _, op := range ops {
		removed, over := map[string]string{}, map[string]string{}
		for k, v := range full {
			if k != op {
				removed[k] = v
			}
			over[k] = v
		}
		over[op] = "X" + op
		variants = append(variants, tag(traceRun(e, removed), "removed", op), tag(traceRun(e, over), "over", op))
		over[op] = "BLANK"
		variants = append(variants, tag(traceRun(e, over), "blank", op))
	}
	return append(variants, failingVariants(e, variants[0].(map[string]any), full)...)
}

// failingVariants: the function called for the last leaf (a list item, a range bound, the right operand ...) fails;
// so does the one called in the middle.  Render must fail without partial text - and leave nothing behind for later renders.
func failingVariants(e *expr.Expression, all map[string]any, full map[string]string) []any {
	calls, _ := all["calls"].([]foldCall)
	at := map[int]bool{}
	for i := len(calls) - 1; i >= 0; i-- {
		if calls[i].Op == "LIT" || calls[i].Op == "WILD" || calls[i].Op == "REGEXP" {
			at[i+1] = true
			break
		}
	}
	if len(calls) >= 2 {
		at[(len(calls)+1)/2] = true
	}
	out := []any{}
	for _, k := range sortedInts(at) {
		m := traceRunFail(e, full, k)
		m["mode"], m["mop"] = "errat", strconv.Itoa(k)
		out = append(out, m)
	}
	return out
}

func sortedInts(m map[int]bool) []int {
	out := []int{}
	for k := range m {
		out = append(out, k)
	}
	sort.Ints(out)
	return out
}

// cmdFoldDocs: trees that Parse cannot build - every JSON document of the input that decodes and validates.
func cmdFoldDocs(args []string) {
	fs := newFlags("fold-docs", args)
	in := fs.String("in", "", "docs ndjson")
	out := fs.String("out", "", "output ndjson")
	fs.Parse(args)
	customiseOneDriver()
	r, closeFn := newRecorder(*out, false)
	defer closeFn()
	f, err := os.Open(*in)
	if err != nil {
		fatal(err)
	}
	defer f.Close()
	sc := bufio.NewScanner(f)
	sc.Buffer(make([]byte, 1<<20), 1<<28)
	n, runs := 0, 0
	for sc.Scan() {
		var c struct {
			ID  int    `json:"id"`
			Doc string `json:"doc"`
		}
		if json.Unmarshal(sc.Bytes(), &c) != nil {
			continue
		}
		var e expr.Expression
		if outcomeOf(func() error { return json.Unmarshal([]byte(c.Doc), &e) }) != "ok" {
			continue
		}
		if hasUndefined(&e) {
			// a node whose operator no map registers (a misspelt operator name decodes to Undefined): Render must fail
			full := map[string]string{}
			for _, op := range allOps {
				full[opNames[op]] = opNames[op]
			}
			run := traceRun(&e, full)
			run["mode"], run["mop"] = "undefined", ""
			n++
			runs++
			r.write(map[string]any{"id": c.ID, "q": c.Doc, "tree": Tree{"op": "LIT", "ty": "str", "v": "undefined", "sg": "x"}, "runs": []any{run},
				"obs": map[string]any{"sql": obsCall{Out: "err", Empty: true}, "sqlp": obsCall{Out: "err", Empty: true}}, "suffix_tok": false})
			continue
		}
		if outcomeOf(func() error { return expr.Validate(&e) }) != "ok" {
			continue
		}
		tree := dumpTree(&e)
		if hasBad(tree) {
			continue
		}
		s1, sp1, _, o1, o2 := renderAll(&e)
		obs := map[string]any{"sql": obsCall{Out: o1, Empty: s1 == ""}, "sqlp": obsCall{Out: o2, Empty: sp1 == ""}}
		variants := foldVariants(&e, tree)
		n++
		runs += len(variants)
		r.write(map[string]any{"id": c.ID, "q": c.Doc, "tree": tree, "runs": variants, "obs": obs, "suffix_tok": false})
	}
	summary(map[string]any{"trees": n, "renders": runs})
}

// cmdFoldGroups: for the minimal print of every generated tree: Parse, then Render with (a) every operator traced,
// (b) each operator of the tree removed in turn, (c) each operator of the tree overridden in turn; plus what the
// package-level renderers do with the same query (the fuzzy/boost clause).
func cmdFoldGroups(args []string) {
	fs := newFlags("fold-groups", args)
	in := fs.String("in", "", "groups ndjson")
	out := fs.String("out", "", "output ndjson")
	fs.Parse(args)
	customiseOneDriver()
	r, closeFn := newRecorder(*out, false)
	defer closeFn()
	f, err := os.Open(*in)
	if err != nil {
		fatal(err)
	}
	defer f.Close()
	sc := bufio.NewScanner(f)
	sc.Buffer(make([]byte, 1<<20), 1<<28)
	n, runs := 0, 0
	full := map[string]string{}
	for _, op := range allOps {
		full[opNames[op]] = opNames[op]
	}
	for sc.Scan() {
		var g GroupIn
		if err := json.Unmarshal(sc.Bytes(), &g); err != nil {
			fatal(err)
		}
		for i := range g.Cases {
			c := &g.Cases[i]
			if c.Kind != "min" {
				continue
			}
			q := caseText(&c.CaseIn)
			pr := r.record(c.ID, q, "")
			if pr.expr == nil {
				continue
			}
			n++
			observeAll(pr)
			variants := foldVariants(pr.expr, pr.Tree)
			runs += len(variants)
			r.write(map[string]any{"id": c.ID, "q": q, "tree": pr.Tree, "runs": variants, "obs": pr.Obs, "suffix_tok": hasSuffixTok(pr.Toks)})
		}
	}
	summary(map[string]any{"trees": n, "renders": runs})
}

// cmdFoldText: the renders of a single query text (replay of one case), or with -in of every text of a file (one JSON
// string per line).  Texts whose values hold quote characters are C02's / C08's subject and are skipped in file mode.
func cmdFoldText(args []string) {
	fs := newFlags("fold-text", args)
	q := fs.String("q", "", "query text")
	in := fs.String("in", "", "file of query texts (JSON strings, one per line)")
	out := fs.String("out", "", "output ndjson")
	fs.Parse(args)
	customiseOneDriver()
	r, closeFn := newRecorder(*out, false)
	defer closeFn()
	texts := []string{*q}
	if *in != "" {
		texts = texts[:0]
		f, err := os.Open(*in)
		if err != nil {
			fatal(err)
		}
		defer f.Close()
		sc := bufio.NewScanner(f)
		sc.Buffer(make([]byte, 1<<20), 1<<28)
		for sc.Scan() {
			var t string
			if json.Unmarshal(sc.Bytes(), &t) == nil {
				texts = append(texts, t)
			}
		}
	}
	trees, renders := 0, 0
	for i, t := range texts {
		pr := r.record(i+1, t, "")
		if pr.expr == nil || (*in != "" && (hasBad(pr.Tree) || !utf8.ValidString(t))) {
			continue
		}
		observeAll(pr)
		variants := foldVariants(pr.expr, pr.Tree)
		r.write(map[string]any{"id": i + 1, "q": t, "tree": pr.Tree, "runs": variants, "obs": pr.Obs, "suffix_tok": hasSuffixTok(pr.Toks)})
		trees++
		renders += len(variants)
	}
	summary(map[string]any{"trees": trees, "renders": renders})
}

// hasSuffixTok: the query text contains a ~ or ^ operator token (whatever the parser made of it)
func hasSuffixTok(toks []Tok) bool {
	for _, t := range toks {
		if t.T == "TILDE" || t.T == "CARROT" {
			return true
		}
	}
	return false
}
