// Command harness records what the real go-lucene code (built from /repo's working tree with -tags verif)
// does on generated inputs, as ndjson traces that the TLA+ specification in /verif/spec judges.
// It contains no oracle: every property verdict is computed by TLC from these records.
package main

import (
	"encoding/json"
	"flag"
	"fmt"
	"os"
)

func fatal(err error) {
	fmt.Fprintln(os.Stderr, "harness:", err)
	os.Exit(2)
}

func newFlags(name string, args []string) *flag.FlagSet {
	return flag.NewFlagSet(name, flag.ExitOnError)
}

// summary prints one machine-readable line for the driver.
func summary(m map[string]any) {
	b, _ := json.Marshal(m)
	fmt.Printf("SUMMARY %s\n", b)
}

var commands = map[string]func([]string){
	"parse-enum":     cmdParseEnum,
	"parse-cases":    cmdParseCases,
	"parse-texts":    cmdParseTexts,
	"parse-groups":   cmdParseGroups,
	"parse-families": cmdParseFamilies,
	"lex-enum":       cmdLexEnum,
	"lex-one":        cmdLexOne,
	"quote-enum":     cmdQuoteEnum,
	"quote-one":      cmdQuoteOne,
	"fold-groups":    cmdFoldGroups,
	"fold-text":      cmdFoldText,
	"fold-docs":      cmdFoldDocs,
	"sql-read":       cmdSQLRead,
	"sql-cases":      cmdSQLCases,
	"json-docs":      cmdJSONDocs,
	"conc":           cmdConc,
}

func main() {
	if len(os.Args) < 2 {
		fmt.Fprintln(os.Stderr, "usage: harness <command> [flags]")
		os.Exit(2)
	}
	cmd, ok := commands[os.Args[1]]
	if !ok {
		fmt.Fprintln(os.Stderr, "unknown command", os.Args[1])
		os.Exit(2)
	}
	cmd(os.Args[2:])
}
