package main

// The observables of C01 / C10 other than Parse itself: printers, JSON encoder and both renderers,
// each run under recover; only outcome, emptiness and the "%!" marker are recorded.

import (
	"encoding/json"
	"fmt"
	"math/rand"
	"strings"

	lucene "github.com/grindlemire/go-lucene"
)

func newRng(seed int64) *rand.Rand { return rand.New(rand.NewSource(seed)) }

type obsCall struct {
	Out    string `json:"out"` // ok | err | panic
	Empty  bool   `json:"empty"`
	Marker bool   `json:"marker"`
	N      int    `json:"n"` // parameters (sqlp) / bytes (others)
	Msg    string `json:"msg,omitempty"`
}

func guard(f func() (string, int, error)) (o obsCall) {
	defer func() {
		if p := recover(); p != nil {
			o = obsCall{Out: "panic", Empty: true, Msg: fmt.Sprint(p)}
		}
	}()
	s, n, err := f()
	o = obsCall{Out: "ok", Empty: s == "", Marker: strings.Contains(s, "%!"), N: n}
	if err != nil {
		o.Out = "err"
	}
	return o
}

// observeAll fills rec.Obs.  Printers and the encoder only apply to a returned expression.
func observeAll(rec *ParseRec) {
	obs := map[string]any{}
	q, df := rec.Q, rec.DF
	obs["sql"] = guard(func() (string, int, error) {
		var s string
		var err error
		if df != "" {
			s, err = lucene.ToPostgres(q, lucene.WithDefaultField(df))
		} else {
			s, err = lucene.ToPostgres(q)
		}
		return s, len(s), err
	})
	obs["sqlp"] = guard(func() (string, int, error) {
		var s string
		var ps []any
		var err error
		if df != "" {
			s, ps, err = lucene.ToParameterizedPostgres(q, lucene.WithDefaultField(df))
		} else {
			s, ps, err = lucene.ToParameterizedPostgres(q)
		}
		return s, len(ps), err
	})
	if e := rec.expr; e != nil {
		obs["str"] = guard(func() (string, int, error) { s := e.String(); return s, len(s), nil })
		obs["gostr"] = guard(func() (string, int, error) { s := fmt.Sprintf("%#v", e); return s, len(s), nil })
		obs["json"] = guard(func() (string, int, error) { b, err := json.Marshal(e); return string(b), len(b), err })
	}
	rec.Obs = obs
}
