package main

// The observables of C01 / C10 other than Parse itself: printers, JSON encoder and both renderers,
// each run under recover; only outcome, emptiness and the "%!" marker are recorded.

import (
	"encoding/json"
	"fmt"
	"math/rand"
	"regexp"
	"time"

	lucene "github.com/grindlemire/go-lucene"
)

func newRng(seed int64) *rand.Rand { return rand.New(rand.NewSource(seed)) }

var skipJSON bool

type obsCall struct {
	Out    string `json:"out"` // ok | err | panic
	Empty  bool   `json:"empty"`
	Marker bool   `json:"marker"`
	N      int    `json:"n"` // parameters (sqlp) / bytes (others)
	Msg    string `json:"msg,omitempty"`
	Ms     int64  `json:"ms"`
}

// Go's formatting-error markers: %!verb(type=value), %!(EXTRA ...), %!(BADWIDTH) ... (package fmt, "Format errors")
var markerRE = regexp.MustCompile(`%!([a-zA-Z]\(|\((EXTRA|BADWIDTH|BADPREC|NOVERB|BADINDEX|PANIC))`)

// echoed is the number of marker-looking substrings the input itself contains; a marker is only reported
// when the output has more of them than the input could have echoed
var echoed int

func guard(f func() (string, int, error)) (o obsCall) {
	defer func() {
		if p := recover(); p != nil {
			o = obsCall{Out: "panic", Empty: true, Msg: fmt.Sprint(p)}
		}
	}()
	t0 := time.Now()
	s, n, err := f()
	ms := time.Since(t0).Milliseconds()
	defer func() { o.Ms = ms }()
	o = obsCall{Out: "ok", Empty: s == "", Marker: len(markerRE.FindAllStringIndex(s, -1)) > echoed, N: n}
	if err != nil {
		o.Out = "err"
	}
	return o
}

// observeAll fills rec.Obs.  Printers and the encoder only apply to a returned expression.
func observeAll(rec *ParseRec) {
	obs := map[string]any{}
	if rec.Outcome == "hang" {
		return // the renderers would hang as well
	}
	q, df := rec.Q, rec.DF
	echoed = len(markerRE.FindAllStringIndex(q, -1))
	defer func() { echoed = 0 }()
	obs["sql"] = guard(func() (string, int, error) {
		var s string
		var err error
		if df != "" {
			s, err = lucene.ToPostgres(q, lucene.WithDefaultField(df))
		} else {
			s, err = lucene.ToPostgres(q)
		}
		return s, len(s), err
	})
	obs["sqlp"] = guard(func() (string, int, error) {
		var s string
		var ps []any
		var err error
		if df != "" {
			s, ps, err = lucene.ToParameterizedPostgres(q, lucene.WithDefaultField(df))
		} else {
			s, ps, err = lucene.ToParameterizedPostgres(q)
		}
		return s, len(ps), err
	})
	// the same two calls once more
	obs["sql2"] = guard(func() (string, int, error) {
		var s string
		var err error
		if df != "" {
			s, err = lucene.ToPostgres(q, lucene.WithDefaultField(df))
		} else {
			s, err = lucene.ToPostgres(q)
		}
		return s, len(s), err
	})
	obs["sqlp2"] = guard(func() (string, int, error) {
		var s string
		var ps []any
		var err error
		if df != "" {
			s, ps, err = lucene.ToParameterizedPostgres(q, lucene.WithDefaultField(df))
		} else {
			s, ps, err = lucene.ToParameterizedPostgres(q)
		}
		return s, len(ps), err
	})
	if e := rec.expr; e != nil {
		obs["str"] = guard(func() (string, int, error) { s := e.String(); return s, len(s), nil })
		obs["gostr"] = guard(func() (string, int, error) { s := fmt.Sprintf("%#v", e); return s, len(s), nil })
		if !skipJSON {
			obs["json"] = guard(func() (string, int, error) { b, err := json.Marshal(e); return string(b), len(b), err })
		}
	}
	rec.Obs = obs
}
