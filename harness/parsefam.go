package main

// Recorder for the parser family (C01 parser part, C05, C06, C07, C09, C10, C11): runs the real Parse with
// the verif hooks installed and writes what happened as one JSON record per call.

import (
	"bufio"
	"bytes"
	"encoding/json"
	"fmt"
	"os"
	"strings"
	"time"

	lucene "github.com/grindlemire/go-lucene"
	"github.com/grindlemire/go-lucene/internal/lex"
	"github.com/grindlemire/go-lucene/pkg/lucene/expr"
)

// Step is one logged parser loop iteration (spec/TraceParser.tla).
type Step struct {
	A  string `json:"a"`  // accept | shift | shiftT | implAndReduce | reduce
	T  string `json:"t"`  // type / kind of the lookahead token
	SL int    `json:"sl"` // len(stack) after the step
	NL int    `json:"nl"` // len(nonTerminals) after the step
	K  int    `json:"k"`  // elements popped by the successful reduce (0 otherwise)
}

// ParseRec is what one Parse call did.
type ParseRec struct {
	ID       int            `json:"id"`
	Q        string         `json:"q"`
	DF       string         `json:"df"`
	Outcome  string         `json:"outcome"` // ok | err | panic | hang
	ENil     bool           `json:"e_nil"`
	ErrNil   bool           `json:"err_nil"`
	Validate bool           `json:"validate_ok"`
	Toks     []Tok          `json:"toks"`
	LexErr   bool           `json:"lex_err"`
	Tree     Tree           `json:"tree"`
	Steps    []Step         `json:"steps"`
	NSteps   int            `json:"nsteps"`
	Popped   int            `json:"popped"`
	Attempts int            `json:"attempts"` // reduce attempts (pop events), the unit of work of reduce()
	PanicMsg string         `json:"panic_msg,omitempty"`
	Obs      map[string]any `json:"obs,omitempty"`
	expr     *expr.Expression
}

var hangLimit = 20 * time.Second
var hangs int

type recorder struct {
	out       *bufio.Writer
	withSteps bool
	cur       *ParseRec
	lastPop   int
}

func newRecorder(path string, withSteps bool) (*recorder, func()) {
	f, err := os.Create(path)
	if err != nil {
		fatal(err)
	}
	w := bufio.NewWriterSize(f, 1<<20)
	r := &recorder{out: w, withSteps: withSteps}
	lucene.VerifHook = r.hook
	return r, func() { w.Flush(); f.Close() }
}

func (r *recorder) hook(p any, ev lucene.VerifEvent) {
	rec := r.cur
	if rec == nil {
		return
	}
	if ev.Ev == "pop" {
		r.lastPop = ev.K
		rec.Attempts++
		return
	}
	rec.NSteps++
	k := 0
	if ev.Ev == "reduce" || ev.Ev == "implAndReduce" {
		k = r.lastPop
		rec.Popped += k
	}
	if ev.Ev == "implAndReduce" {
		rec.NSteps-- // not a loop iteration of its own
	}
	if r.withSteps {
		rec.Steps = append(rec.Steps, Step{A: ev.Ev, T: classify(lex.Token{Typ: ev.Next, Val: ev.NextVal}).T, SL: ev.SL, NL: ev.NL, K: k})
	}
}

func parseWith(q, df string) (*expr.Expression, error) {
	if df != "" {
		return lucene.Parse(q, lucene.WithDefaultField(df))
	}
	return lucene.Parse(q)
}

// record runs one Parse under recover and a watchdog.
func (r *recorder) record(id int, q, df string) *ParseRec {
	rec := &ParseRec{ID: id, Q: q, DF: df, Steps: []Step{}, Tree: Tree{"op": "NIL"}}
	toks, lexErr, runaway := lexAll(q)
	if toks == nil {
		toks = []Tok{}
	}
	rec.Toks, rec.LexErr = toks, lexErr
	if runaway {
		rec.Outcome = "hang"
		return rec
	}
	r.cur, r.lastPop = rec, 0
	done := make(chan struct{})
	var e *expr.Expression
	var err error
	go func() {
		defer close(done)
		defer func() {
			if p := recover(); p != nil {
				rec.Outcome = "panic"
				rec.PanicMsg = fmt.Sprint(p)
			}
		}()
		e, err = parseWith(q, df)
	}()
	select {
	case <-done:
	case <-time.After(hangLimit):
		// the call is still running: report it as hanging and leave its goroutine behind (the hook ignores it from now on)
		r.cur = nil
		hangs++
		fmt.Fprintf(os.Stderr, "HANG id=%d\n", id)
		return &ParseRec{ID: id, Q: q, DF: df, Outcome: "hang", Toks: rec.Toks, LexErr: rec.LexErr, Steps: []Step{}, Tree: Tree{"op": "NIL"}}
	}
	r.cur = nil
	if rec.Outcome == "panic" {
		return rec
	}
	rec.ENil, rec.ErrNil = e == nil, err == nil
	if err == nil {
		rec.Outcome = "ok"
	} else {
		rec.Outcome = "err"
	}
	rec.expr = e
	if e != nil {
		rec.Tree = dumpTree(e)
		func() {
			defer func() { recover() }()
			rec.Validate = expr.Validate(e) == nil
		}()
	}
	return rec
}

// write emits one ndjson line.  TLC's Json module rejects JSON null, so a null that slips into a record (a nil
// map / slice / interface somewhere in a projection of unexpected behaviour) is written as the string "NULL".
func (r *recorder) write(rec any) {
	b := asciiJSON(rec)
	if bytes.Contains(b, []byte("null")) {
		var v any
		if json.Unmarshal(b, &v) == nil {
			b = asciiJSON(denull(v))
		}
	}
	r.out.Write(b)
	r.out.WriteByte('\n')
}

func denull(v any) any {
	switch x := v.(type) {
	case nil:
		return "NULL"
	case map[string]any:
		for k, e := range x {
			x[k] = denull(e)
		}
	case []any:
		for i, e := range x {
			x[i] = denull(e)
		}
	}
	return v
}

// ---- token pools shared with spec/Parser.tla (TokVal) ----------------------------------------

var ntText = map[string]string{"EQUAL": "=", "GREATER": ">", "LESS": "<", "COLON": ":", "PLUS": "+", "MINUS": "-",
	"TILDE": "~", "CARROT": "^", "NOT": "NOT", "AND": "AND", "OR": "OR", "RPAREN": ")", "LPAREN": "(",
	"LCURLY": "{", "RCURLY": "}", "TO": "TO", "LSQUARE": "[", "RSQUARE": "]", "ERR": "#"}

// tokText is the text typed for a generated token [t, v] (v as produced by TokVal in the spec).
func tokText(t, v string) string {
	if s, ok := ntText[t]; ok {
		return s
	}
	if t == "quoted" || t == "empty" {
		return `"` + v + `"`
	}
	if t == "word" {
		return escapeSpecials(v)
	}
	return v
}

func tokVal(kind string, i int) string {
	switch kind {
	case "word":
		switch i % 4 {
		case 1:
			return fmt.Sprintf("w*%d", i) // typed w\*1: an escaped wildcard
		case 2:
			return fmt.Sprintf("w%d:", i) // typed w2\: : ends in an escaped colon
		case 3:
			return fmt.Sprintf("w(%d", i) // typed w\(3: an escaped parenthesis
		}
		return fmt.Sprintf("w%d", i)
	case "quoted":
		switch i % 5 {
		case 1:
			return fmt.Sprintf("q*%d", i)
		case 2:
			return fmt.Sprintf("q %d", i)
		case 3:
			return fmt.Sprintf("/q%d/", i)
		case 4:
			return fmt.Sprintf("it's %d", i) // the other quote character inside
		}
		return fmt.Sprintf("%d", i)
	case "wild":
		if i%2 == 0 {
			return fmt.Sprintf("w%d\\\\*", i) // w2\\* : an escaped backslash, then a wildcard
		}
		return fmt.Sprintf("w%d*", i)
	case "star":
		return "*"
	case "regexp":
		return fmt.Sprintf("/r%d/", i)
	case "int":
		return fmt.Sprintf("%d", 10+i)
	case "zint":
		return "0"
	case "nint":
		return fmt.Sprintf("-%d", 10+i)
	case "float":
		return fmt.Sprintf("%d.5", i)
	case "zfloat":
		return "0.0"
	case "nfloat":
		return fmt.Sprintf("-%d.5", i)
	}
	return kind
}

// CaseIn is one generated case (written by TLC generators or by enumeration here).
type CaseIn struct {
	ID   int    `json:"id"`
	Toks []Tok  `json:"toks"`
	WS   []int  `json:"ws,omitempty"`     // whitespace variant per gap: len(toks)+1 entries (leading .. trailing)
	Case []int  `json:"kwcase,omitempty"` // keyword case variant per token
	DF   string `json:"df"`
}

var wsPool = []string{"", " ", "\t", "\n", "\r", "  \t\n "}

func kwCase(s string, variant int) string {
	switch variant {
	case 1:
		return strings.ToLower(s)
	case 2: // mixed
		b := []byte(strings.ToLower(s))
		b[0] = s[0]
		return string(b)
	}
	return s
}

// caseText joins the generated tokens with the whitespace / keyword-case variant of the case.
func caseText(c *CaseIn) string {
	var sb strings.Builder
	for i, t := range c.Toks {
		ws := " "
		if i == 0 {
			ws = ""
		}
		if len(c.WS) == len(c.Toks)+1 {
			ws = wsPool[c.WS[i]%len(wsPool)]
		}
		sb.WriteString(ws)
		txt := tokText(t.T, t.V)
		if len(c.Case) == len(c.Toks) && (t.T == "AND" || t.T == "OR" || t.T == "NOT" || t.T == "TO") {
			txt = kwCase(txt, c.Case[i])
		}
		sb.WriteString(txt)
	}
	if len(c.WS) == len(c.Toks)+1 {
		sb.WriteString(wsPool[c.WS[len(c.Toks)]%len(wsPool)])
	}
	return sb.String()
}

// cmdParseEnum: every token sequence of length 1..n over the alphabet (or -random sequences of length
// up to -len), each parsed without and with a default field.  Output: one line per sequence
// {id, q, toks, res, resdf}; with -accepted-only only sequences accepted by at least one of the two calls
// are written (the SUMMARY counts cover all).  -trace writes the flat per-call records with steps.
func cmdParseEnum(args []string) {
	fs := newFlags("parse-enum", args)
	n := fs.Int("n", 3, "max tokens")
	alpha := fs.String("alphabet", "", "comma separated token kinds")
	out := fs.String("out", "", "output ndjson")
	trace := fs.String("trace", "", "flat trace with steps (optional)")
	accOnly := fs.Bool("accepted-only", false, "write only accepted cases (counts cover all)")
	shard := fs.String("shard", "0/1", "i/k")
	df := fs.String("df", "df", "default field of the second call")
	random := fs.Int("random", 0, "number of random sequences instead of exhaustive enumeration")
	rlen := fs.Int("len", 8, "max length of random sequences")
	seed := fs.Int64("seed", 1, "seed for -random")
	observe := fs.Bool("observe", false, "also record String/GoString/Marshal/ToPostgres/ToParameterizedPostgres")
	withJSON := fs.Bool("json", false, "also record the JSON round trip of every returned expression")
	fs.Parse(args)
	var si, sk int
	fmt.Sscanf(*shard, "%d/%d", &si, &sk)
	alphabet := strings.Split(*alpha, ",")
	r, closeFn := newRecorder(*out, *trace != "")
	defer closeFn()
	var tw *bufio.Writer
	if *trace != "" {
		tf, err := os.Create(*trace)
		if err != nil {
			fatal(err)
		}
		defer tf.Close()
		tw = bufio.NewWriterSize(tf, 1<<20)
		defer tw.Flush()
	}
	id, total, accepted, rejected, written := 0, 0, 0, 0, 0
	run := func(seq []string) {
		parts := make([]string, len(seq))
		for i, k := range seq {
			parts[i] = tokText(k, tokVal(k, i+1))
		}
		q := strings.Join(parts, " ")
		a := r.record(id, q, "")
		b := r.record(id, q, *df)
		total += 2
		for _, pr := range []*ParseRec{a, b} {
			if pr.Outcome == "ok" {
				accepted++
			} else {
				rejected++
			}
			if tw != nil {
				tw.Write(asciiJSON(pr))
				tw.WriteByte('\n')
			}
		}
		if !*accOnly || a.Outcome != "err" || b.Outcome != "err" {
			if *observe {
				observeAll(a)
				observeAll(b)
			}
			line := map[string]any{"id": id, "q": q, "toks": a.Toks, "df": *df, "res": slim(a), "resdf": slim(b)}
			if *withJSON {
				if a.expr != nil {
					line["rt"] = roundTrip(a.expr)
				}
				if b.expr != nil {
					line["rtdf"] = roundTrip(b.expr)
				}
			}
			r.write(line)
			written++
		}
	}
	if *random > 0 {
		rng := newRng(*seed)
		for i := 0; i < *random; i++ {
			id++
			l := 1 + rng.Intn(*rlen)
			seq := make([]string, l)
			for j := range seq {
				seq[j] = alphabet[rng.Intn(len(alphabet))]
			}
			run(seq)
		}
	} else {
		seq := make([]string, 0, *n)
		var rec func()
		rec = func() {
			if len(seq) > 0 {
				id++
				if id%sk == si {
					run(seq)
				}
			}
			if len(seq) == *n {
				return
			}
			for _, a := range alphabet {
				seq = append(seq, a)
				rec()
				seq = seq[:len(seq)-1]
			}
		}
		rec()
	}
	summary(map[string]any{"sequences": total / 2, "calls": total, "accepted": accepted, "rejected": rejected, "written": written})
}

// cmdParseCases: run the cases of a generated file (one CaseIn per line).
func cmdParseCases(args []string) {
	fs := newFlags("parse-cases", args)
	in := fs.String("in", "", "cases ndjson")
	out := fs.String("out", "", "output ndjson")
	steps := fs.Bool("steps", false, "record steps")
	fs.Parse(args)
	r, closeFn := newRecorder(*out, *steps)
	defer closeFn()
	f, err := os.Open(*in)
	if err != nil {
		fatal(err)
	}
	defer f.Close()
	sc := bufio.NewScanner(f)
	sc.Buffer(make([]byte, 1<<20), 1<<28)
	total, accepted := 0, 0
	for sc.Scan() {
		var c CaseIn
		if err := json.Unmarshal(sc.Bytes(), &c); err != nil {
			fatal(fmt.Errorf("case %d: %v", total+1, err))
		}
		pr := r.record(c.ID, caseText(&c), c.DF)
		total++
		if pr.Outcome == "ok" {
			accepted++
		}
		r.write(pr)
	}
	summary(map[string]any{"cases": total, "accepted": accepted})
}

// cmdParseTexts: run raw query texts (one JSON string per line) without and with a default field; same
// output format as parse-enum.
func cmdParseTexts(args []string) {
	fs := newFlags("parse-texts", args)
	in := fs.String("in", "", "texts ndjson")
	out := fs.String("out", "", "output ndjson")
	trace := fs.String("trace", "", "flat trace with steps (optional)")
	df := fs.String("df", "df", "default field of the second call")
	observe := fs.Bool("observe", false, "also record the other observables")
	withJSON := fs.Bool("json", false, "also record the JSON round trip of every returned expression")
	fs.Parse(args)
	r, closeFn := newRecorder(*out, *trace != "")
	defer closeFn()
	var tw *bufio.Writer
	if *trace != "" {
		tf, err := os.Create(*trace)
		if err != nil {
			fatal(err)
		}
		defer tf.Close()
		tw = bufio.NewWriterSize(tf, 1<<20)
		defer tw.Flush()
	}
	f, err := os.Open(*in)
	if err != nil {
		fatal(err)
	}
	defer f.Close()
	sc := bufio.NewScanner(f)
	sc.Buffer(make([]byte, 1<<20), 1<<28)
	id, accepted := 0, 0
	for sc.Scan() {
		var q string
		if err := json.Unmarshal(sc.Bytes(), &q); err != nil {
			fatal(err)
		}
		id++
		a := r.record(id, q, "")
		b := r.record(id, q, *df)
		for _, pr := range []*ParseRec{a, b} {
			if pr.Outcome == "ok" {
				accepted++
			}
			if tw != nil {
				tw.Write(asciiJSON(pr))
				tw.WriteByte('\n')
			}
		}
		if *observe {
			observeAll(a)
			observeAll(b)
		}
		line := map[string]any{"id": id, "q": q, "toks": a.Toks, "df": *df, "res": slim(a), "resdf": slim(b)}
		if *withJSON {
			if a.expr != nil {
				line["rt"] = roundTrip(a.expr)
			}
			if b.expr != nil {
				line["rtdf"] = roundTrip(b.expr)
			}
		}
		r.write(line)
	}
	summary(map[string]any{"texts": id, "calls": 2 * id, "accepted": accepted})
}

// GroupIn is one generated tree with its variants (spec/GenTrees.tla, one line per tree).
type GroupIn struct {
	N     int `json:"n"`
	Cases []struct {
		CaseIn
		Kind   string          `json:"kind"`
		Note   string          `json:"note"`
		Base   int             `json:"base"`
		Expect json.RawMessage `json:"expect"`
	} `json:"cases"`
}

// slim drops what the judges do not read from a record that is embedded in a group.
func slim(pr *ParseRec) map[string]any {
	m := map[string]any{"q": pr.Q, "outcome": pr.Outcome, "e_nil": pr.ENil, "err_nil": pr.ErrNil,
		"validate_ok": pr.Validate, "tree": pr.Tree, "nsteps": pr.NSteps, "attempts": pr.Attempts,
		"popped": pr.Popped, "ntoks": len(pr.Toks), "lex_err": pr.LexErr}
	if pr.PanicMsg != "" {
		m["panic_msg"] = pr.PanicMsg
	}
	if pr.Obs != nil {
		m["obs"] = pr.Obs
	}
	return m
}

// cmdParseGroups: run every case of every group without and with a default field.
// Output: one line per group {n, cases:[{id, kind, note, expect, res, resdf}]}; optionally a flat trace
// (with steps) of the calls for step-level validation.
func cmdParseGroups(args []string) {
	fs := newFlags("parse-groups", args)
	in := fs.String("in", "", "groups ndjson")
	out := fs.String("out", "", "output ndjson")
	trace := fs.String("trace", "", "flat trace with steps (optional)")
	traceEvery := fs.Int("trace-every", 1, "trace every k-th group")
	df := fs.String("df", "dflt", "default field for the second run")
	observe := fs.Bool("observe", false, "also record String/GoString/Marshal/ToPostgres/ToParameterizedPostgres")
	withSQL := fs.Bool("sql", false, "also record both SQL renderings as PostgreSQL's parser reads them")
	withJSON := fs.Bool("json", false, "also record the JSON round trip of every returned expression")
	withPrint := fs.Bool("print", false, "also record the texts of String() and GoString() of every returned expression")
	gshard := fs.String("shard", "0/1", "process group lines i mod k")
	fs.Parse(args)
	var gsi, gsk int
	fmt.Sscanf(*gshard, "%d/%d", &gsi, &gsk)
	r, closeFn := newRecorder(*out, *trace != "")
	defer closeFn()
	var tw *bufio.Writer
	if *trace != "" {
		tf, err := os.Create(*trace)
		if err != nil {
			fatal(err)
		}
		defer tf.Close()
		tw = bufio.NewWriterSize(tf, 1<<20)
		defer tw.Flush()
	}
	f, err := os.Open(*in)
	if err != nil {
		fatal(err)
	}
	defer f.Close()
	sc := bufio.NewScanner(f)
	sc.Buffer(make([]byte, 1<<20), 1<<28)
	groups, calls, accepted, traced := 0, 0, 0, 0
	lineNo := -1
	for sc.Scan() {
		lineNo++
		if gsk > 1 && lineNo%gsk != gsi {
			continue
		}
		var g GroupIn
		if err := json.Unmarshal(sc.Bytes(), &g); err != nil {
			fatal(fmt.Errorf("group %d: %v", groups+1, err))
		}
		groups++
		outCases := []any{}
		for i := range g.Cases {
			c := &g.Cases[i]
			q := caseText(&c.CaseIn)
			a := r.record(c.ID, q, "")
			b := r.record(c.ID, q, *df)
			calls += 2
			if a.Outcome == "ok" {
				accepted++
			}
			if tw != nil && groups%*traceEvery == 0 && (c.Kind == "min" || c.Kind == "juxt" || c.Kind == "paren") {
				tw.Write(asciiJSON(a))
				tw.WriteByte('\n')
				tw.Write(asciiJSON(b))
				tw.WriteByte('\n')
				traced += 2
			}
			if *observe {
				observeAll(a)
				observeAll(b)
			}
			oc := map[string]any{"id": c.ID, "kind": c.Kind, "note": c.Note, "expect": c.Expect,
				"toks": a.Toks, "res": slim(a), "resdf": slim(b), "df": *df}
			if *withSQL {
				inl, par := renderBoth(q, "")
				oc["sql"] = map[string]any{"inline": inl, "param": par}
			}
			if *withPrint {
				if a.expr != nil {
					oc["print"] = printed(a.expr)
				}
				if b.expr != nil {
					oc["printdf"] = printed(b.expr)
				}
			}
			if *withJSON {
				if a.expr != nil {
					oc["rt"] = roundTrip(a.expr)
				}
				if b.expr != nil {
					oc["rtdf"] = roundTrip(b.expr)
				}
			}
			outCases = append(outCases, oc)
		}
		r.write(map[string]any{"n": g.N, "cases": outCases})
	}
	summary(map[string]any{"groups": groups, "calls": calls, "accepted": accepted, "traced": traced})
}

// printed records what both printers return for an expression ("PANIC" when one panics).
func printed(e *expr.Expression) (out map[string]any) {
	out = map[string]any{"str": "PANIC", "gostr": "PANIC"}
	defer func() { recover() }()
	out["str"] = e.String()
	out["gostr"] = fmt.Sprintf("%#v", e)
	return out
}
