package main

// Recorder for C12 (JSON round trip of parsed expressions) and C13 (decoding untrusted JSON, and what may be
// called on a decoded expression that validates).

import (
	"bufio"
	"bytes"
	"encoding/json"
	"fmt"
	"os"
	"reflect"
	"strconv"
	"strings"

	lucene "github.com/grindlemire/go-lucene"
	"github.com/grindlemire/go-lucene/pkg/driver"
	"github.com/grindlemire/go-lucene/pkg/lucene/expr"
)

func outcomeOf(f func() error) (o string) {
	defer func() {
		if p := recover(); p != nil {
			o = "panic"
		}
	}()
	if err := f(); err != nil {
		return "err"
	}
	return "ok"
}

// leafProfiles lists, for every leaf of the tree in order, the textual facts the decoder's kind inference looks at.
func leafProfiles(in any, out *[]map[string]any) {
	switch e := in.(type) {
	case *expr.Expression:
		if e == nil {
			return
		}
		switch e.Op {
		case expr.Literal, expr.Wild, expr.Regexp:
			p := map[string]any{"op": opNames[e.Op], "ty": "other", "has_wild": false, "slashed": false, "intvalued": false, "empty": false,
				"f64ty": "", "f64v": ""}
			switch v := e.Left.(type) {
			case string:
				p["ty"] = "str"
				p["has_wild"] = strings.ContainsAny(v, "*?")
				p["slashed"] = len(v) > 0 && v[0] == '/' && v[len(v)-1] == '/'
				p["empty"] = v == ""
			case expr.Column:
				p["ty"] = "col"
			case int:
				p["ty"] = "int"
				p["f64ty"], p["f64v"] = viaFloat64(float64(v))
			case float64:
				p["ty"] = "float"
				p["intvalued"] = v == float64(int(v))
				p["f64ty"], p["f64v"] = viaFloat64(v)
			}
			*out = append(*out, p)
			return
		}
		leafProfiles(e.Left, out)
		leafProfiles(e.Right, out)
	case []*expr.Expression:
		for _, x := range e {
			leafProfiles(x, out)
		}
	case *expr.RangeBoundary:
		if e != nil {
			leafProfiles(e.Min, out)
			leafProfiles(e.Max, out)
		}
	}
}

// viaFloat64: what a number is once it has been a float64 (encoding/json decodes numbers in untyped positions - the
// bounds of a range - as float64): an int when the float64 has an integer value, else that float64.
func viaFloat64(f float64) (string, string) {
	if f == float64(int(f)) {
		return "int", strconv.Itoa(int(f))
	}
	return "float", fmtFloat(f)
}

func renderAll(e *expr.Expression) (s, sp string, ps []any, o1, o2 string) {
	d := driver.NewPostgresDriver()
	o1 = outcomeOf(func() error { var err error; s, err = d.Render(e); return err })
	o2 = outcomeOf(func() error { var err error; sp, ps, err = d.RenderParam(e); return err })
	return
}

// roundTrip records everything C12 states about one parsed expression.
func roundTrip(e *expr.Expression) map[string]any {
	rt := map[string]any{"enc": "skip", "dec": "skip", "validate2": false, "reenc_same": false, "str_same": false, "gostr_same": false,
		"sql_same": false, "sqlp_same": false, "deep_equal": false, "reuse_same": false, "tree2": Tree{"op": "NIL"}, "leaves": []map[string]any{}, "json": ""}
	var b1 []byte
	rt["enc"] = outcomeOf(func() error { var err error; b1, err = json.Marshal(e); return err })
	leaves := []map[string]any{}
	leafProfiles(e, &leaves)
	rt["leaves"] = leaves
	if rt["enc"] != "ok" {
		return rt
	}
	if len(b1) < 400 {
		rt["json"] = string(b1)
	}
	var e2 expr.Expression
	rt["dec"] = outcomeOf(func() error { return json.Unmarshal(b1, &e2) })
	if rt["dec"] != "ok" {
		return rt
	}
	rt["validate2"] = outcomeOf(func() error { return expr.Validate(&e2) }) == "ok"
	var b2 []byte
	if outcomeOf(func() error { var err error; b2, err = json.Marshal(&e2); return err }) == "ok" {
		rt["reenc_same"] = bytes.Equal(b1, b2)
	}
	rt["tree2"] = dumpTree(&e2)
	// the same bytes decoded into expression values that were used before (a reused variable, an element of a reused slice)
	rt["reuse_same"] = func() (same bool) {
		defer func() {
			if recover() != nil {
				same = false
			}
		}()
		for _, prev := range usedTargets() {
			d := prev
			if err := json.Unmarshal(b1, &d); err != nil || !reflect.DeepEqual(&d, &e2) {
				return false
			}
		}
		return true
	}()
	func() {
		defer func() { recover() }()
		rt["str_same"] = e.String() == e2.String()
		rt["gostr_same"] = fmt.Sprintf("%#v", e) == fmt.Sprintf("%#v", &e2)
		rt["deep_equal"] = reflect.DeepEqual(e, &e2)
		s1, sp1, ps1, a1, a2 := renderAll(e)
		s2, sp2, ps2, c1, c2 := renderAll(&e2)
		rt["sql_same"] = a1 == c1 && s1 == s2
		// the parameter values are compared as printed: an integer-valued float comes back as an int (the documented
		// exception of C12), which changes the Go kind of the parameter but not its value
		rt["sqlp_same"] = a2 == c2 && sp1 == sp2 && fmt.Sprint(ps1...) == fmt.Sprint(ps2...) && len(ps1) == len(ps2)
	}()
	return rt
}

// usedTargets: expression values holding the results of earlier decodes (a binary node with a range on its right, a
// fuzzy and a boost node with non-default arguments); decoded afresh for every use so that no state is shared.
var usedDocs [][]byte

func usedTargets() []expr.Expression {
	if usedDocs == nil {
		usedDocs = [][]byte{}
		for _, q := range []string{"a:b AND c:[1 TO 5]", "x~3", "x^4", "f:(p OR q)"} {
			if e, err := lucene.Parse(q); err == nil {
				if b, err := json.Marshal(e); err == nil {
					usedDocs = append(usedDocs, b)
				}
			}
		}
	}
	out := []expr.Expression{}
	for _, b := range usedDocs {
		var d expr.Expression
		if json.Unmarshal(b, &d) == nil {
			out = append(out, d)
		}
	}
	return out
}

// decodeDoc records what C13 states about one byte string.
func decodeDoc(doc []byte) map[string]any {
	out := map[string]any{"dec": "skip", "validate": "skip", "str": "skip", "gostr": "skip", "json": "skip", "sql": "skip", "sqlp": "skip"}
	var e expr.Expression
	out["dec"] = outcomeOf(func() error { return json.Unmarshal(doc, &e) })
	if out["dec"] != "ok" {
		return out
	}
	out["validate"] = outcomeOf(func() error { return expr.Validate(&e) })
	if out["validate"] != "ok" {
		return out
	}
	out["str"] = outcomeOf(func() error { _ = e.String(); return nil })
	out["gostr"] = outcomeOf(func() error { _ = fmt.Sprintf("%#v", &e); return nil })
	out["json"] = outcomeOf(func() error { _, err := json.Marshal(&e); return err })
	d := driver.NewPostgresDriver()
	out["sql"] = outcomeOf(func() error { _, err := d.Render(&e); return err })
	out["sqlp"] = outcomeOf(func() error { _, _, err := d.RenderParam(&e); return err })
	return out
}

// cmdJSONDocs: documents written by the TLC generator (one {"id","doc"} per line), plus - with -mutate - every
// truncation and a seeded sample of single-byte mutations of each, and -random random byte strings.
func cmdJSONDocs(args []string) {
	fs := newFlags("json-docs", args)
	in := fs.String("in", "", "docs ndjson")
	out := fs.String("out", "", "output ndjson")
	mutate := fs.Int("mutate", 0, "byte-level mutants per document (0 = none)")
	random := fs.Int("random", 0, "random byte strings")
	seed := fs.Int64("seed", 1, "seed")
	truncEveryF := fs.Int("trunc-every", 1, "write every truncation of every k-th document")
	latin1 := fs.Bool("latin1", false, "the doc strings are bytes written as Latin-1 code points (replay of a byte-level case)")
	fs.Parse(args)
	r, closeFn := newRecorder(*out, false)
	defer closeFn()
	rng := newRng(*seed)
	n := 0
	truncEvery := *truncEveryF
	// a line is the tuple <<id, kind, dec, validate, str, gostr, json, sql, sqlp, doc bytes>>; the bytes are kept only
	// when the document decoded or something panicked (a plain decode error needs no replay)
	emit := func(id int, kind string, doc []byte) {
		n++
		rec := decodeDoc(doc)
		keep := rec["dec"] != "err"
		dc := []int{}
		if keep {
			if len(doc) > 400 {
				doc = doc[:400]
			}
			dc = codes(string(doc))
		}
		r.write([]any{id, kind, rec["dec"], rec["validate"], rec["str"], rec["gostr"], rec["json"], rec["sql"], rec["sqlp"], dc})
	}
	if *in != "" {
		f, err := os.Open(*in)
		if err != nil {
			fatal(err)
		}
		defer f.Close()
		sc := bufio.NewScanner(f)
		sc.Buffer(make([]byte, 1<<20), 1<<28)
		for sc.Scan() {
			var c struct {
				ID  int    `json:"id"`
				Doc string `json:"doc"`
			}
			if err := json.Unmarshal(sc.Bytes(), &c); err != nil {
				fatal(err)
			}
			doc := []byte(c.Doc)
			if *latin1 {
				doc = doc[:0]
				for _, r := range c.Doc {
					doc = append(doc, byte(r))
				}
			}
			emit(c.ID, "doc", doc)
			if *mutate > 0 {
				if c.ID%truncEvery == 0 {
					for k := 0; k < len(doc); k++ { // every truncation
						emit(c.ID, "trunc", doc[:k])
					}
				}
				alphabet := []byte(`{}[]":,\ 0-9.eEnulltruefalse*/?` + "\x00\xff")
				for k := 0; k < *mutate && len(doc) > 0; k++ {
					m := append([]byte{}, doc...)
					switch rng.Intn(3) {
					case 0:
						m[rng.Intn(len(m))] = alphabet[rng.Intn(len(alphabet))]
					case 1:
						i := rng.Intn(len(m))
						m = append(m[:i], m[i+1:]...)
					default:
						i := rng.Intn(len(m) + 1)
						m = append(m[:i], append([]byte{alphabet[rng.Intn(len(alphabet))]}, m[i:]...)...)
					}
					emit(c.ID, "mutant", m)
				}
			}
		}
	}
	for i := 0; i < *random; i++ {
		l := rng.Intn(40)
		b := make([]byte, l)
		alphabet := []byte(`{}[]":,\ 0159.eEnultrfas*/?leftrightoperatorANDEQUALSminmaxboundaries` + "\x00\xff")
		for j := range b {
			b[j] = alphabet[rng.Intn(len(alphabet))]
		}
		emit(1000000+i, "random", b)
	}
	summary(map[string]any{"docs": n})
}
