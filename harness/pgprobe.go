package main

import (
	"fmt"
	"os"
)

// cmdSQLRead: debugging aid - print what PostgreSQL's parser makes of a filter text.
func cmdSQLRead(args []string) {
	for _, a := range args {
		fmt.Fprintf(os.Stdout, "%s\n  %s\n", a, asciiJSON(readSQL(a)))
	}
}
