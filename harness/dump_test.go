package main

import (
	"reflect"
	"testing"

	lucene "github.com/grindlemire/go-lucene"
	"github.com/grindlemire/go-lucene/pkg/lucene/expr"
)

// the two ways of reading a fuzzy distance / boost power agree (the JSON way is the fallback after a field rename)
func TestSuffixArgsAgree(t *testing.T) {
	for _, q := range []string{"a~", "a~0", "a~3", "a^", "a^2", "a^0.5", "a:b~7", "(a b)^4.25", "a~2^3"} {
		e, err := lucene.Parse(q)
		if err != nil {
			t.Fatal(q, err)
		}
		var walk func(x any)
		walk = func(x any) {
			n, ok := x.(*expr.Expression)
			if !ok || n == nil {
				return
			}
			if n.Op == expr.Fuzzy || n.Op == expr.Boost {
				v := reflect.ValueOf(n).Elem()
				d1, p1 := v.FieldByName("fuzzyDistance").Int(), v.FieldByName("boostPower").Float()
				d2, p2 := suffixArgsJSON(n)
				if d1 != d2 || p1 != p2 {
					t.Errorf("%s: reflect (%d, %v) json (%d, %v)", q, d1, p1, d2, p2)
				}
			}
			walk(n.Left)
			walk(n.Right)
		}
		walk(e)
	}
}
