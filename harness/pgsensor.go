package main

// Sensor: PostgreSQL's own parser (pg_query_go v4.2.3, PostgreSQL 15 grammar) reads the rendered filter inside
// `SELECT 1 FROM t WHERE (<text>)`; its AST is projected, purely structurally, into the S records of spec/Sql.tla.
// Anything outside the listed node kinds becomes {"k":"other"} (which spec/Sql.tla never accepts).

import (
	"fmt"
	"math/big"
	"strconv"
	"strings"

	pg_query "github.com/pganalyze/pg_query_go/v4"
)

type SNode = map[string]any

func other(what string) SNode { return SNode{"k": "other", "node": what} }

// scaled returns value*10^6 as an integer when that is exact and fits comfortably, else ok=false.
func scaled(text string) (int64, bool) {
	r, ok := new(big.Rat).SetString(text)
	if !ok {
		return 0, false
	}
	r.Mul(r, big.NewRat(1000000, 1))
	if !r.IsInt() {
		return 0, false
	}
	n := r.Num()
	// TLC integers are 32 bit
	if !n.IsInt64() || n.BitLen() > 30 {
		return 0, false
	}
	return n.Int64(), true
}

// ratKey is the exact value of a numeric spelling as a normalised fraction (the identity of a number whatever
// its spelling or size); "" when the text is not a number.
func ratKey(text string) string {
	r, ok := new(big.Rat).SetString(text)
	if !ok {
		return ""
	}
	return r.String()
}

// f64Key identifies the float64 nearest to a numeric spelling (what a double precision column compares with).
func f64Key(text string) string {
	f, err := strconv.ParseFloat(text, 64)
	if err != nil {
		return ""
	}
	return strconv.FormatFloat(f, 'x', -1, 64)
}

func numConst(ty, text string) SNode {
	n, exact := scaled(text)
	return SNode{"k": "const", "ty": ty, "text": text, "n": n, "exact": exact, "codes": []int{}, "key": ratKey(text), "fkey": f64Key(text)}
}

func strVal(n *pg_query.Node) (string, bool) {
	if s, ok := n.Node.(*pg_query.Node_String_); ok {
		return s.String_.Sval, true
	}
	return "", false
}

func opName(names []*pg_query.Node) string {
	if len(names) != 1 {
		return "?"
	}
	s, _ := strVal(names[0])
	return s
}

func normExpr(n *pg_query.Node) SNode {
	if n == nil {
		return other("nil")
	}
	switch x := n.Node.(type) {
	case *pg_query.Node_BoolExpr:
		op := map[pg_query.BoolExprType]string{pg_query.BoolExprType_AND_EXPR: "AND", pg_query.BoolExprType_OR_EXPR: "OR", pg_query.BoolExprType_NOT_EXPR: "NOT"}[x.BoolExpr.Boolop]
		args := []any{}
		for _, a := range x.BoolExpr.Args {
			args = append(args, normExpr(a))
		}
		if op == "" {
			return other("boolop")
		}
		return SNode{"k": "bool", "op": op, "args": args}
	case *pg_query.Node_AExpr:
		e := x.AExpr
		name := opName(e.Name)
		switch e.Kind {
		case pg_query.A_Expr_Kind_AEXPR_OP:
			if e.Lexpr == nil || e.Rexpr == nil {
				return other("unary " + name)
			}
			switch name {
			case "=", "<", "<=", ">", ">=", "~":
				return SNode{"k": "cmp", "op": name, "l": normExpr(e.Lexpr), "r": normExpr(e.Rexpr)}
			}
			return other("operator " + name)
		case pg_query.A_Expr_Kind_AEXPR_BETWEEN:
			l, ok := e.Rexpr.Node.(*pg_query.Node_List)
			if !ok || len(l.List.Items) != 2 {
				return other("between")
			}
			return SNode{"k": "between", "x": normExpr(e.Lexpr), "lo": normExpr(l.List.Items[0]), "hi": normExpr(l.List.Items[1])}
		case pg_query.A_Expr_Kind_AEXPR_IN:
			l, ok := e.Rexpr.Node.(*pg_query.Node_List)
			if !ok || name != "=" {
				return other("in")
			}
			items := []any{}
			for _, it := range l.List.Items {
				items = append(items, normExpr(it))
			}
			return SNode{"k": "in", "x": normExpr(e.Lexpr), "items": items}
		case pg_query.A_Expr_Kind_AEXPR_SIMILAR:
			if name != "~" {
				return other("not similar")
			}
			fc, ok := e.Rexpr.Node.(*pg_query.Node_FuncCall)
			if !ok || len(fc.FuncCall.Args) != 1 || len(fc.FuncCall.Funcname) != 2 {
				return other("similar")
			}
			f1, _ := strVal(fc.FuncCall.Funcname[0])
			f2, _ := strVal(fc.FuncCall.Funcname[1])
			if f1 != "pg_catalog" || f2 != "similar_to_escape" {
				return other("similar")
			}
			return SNode{"k": "similar", "x": normExpr(e.Lexpr), "pat": normExpr(fc.FuncCall.Args[0])}
		}
		return other("a_expr " + e.Kind.String())
	case *pg_query.Node_ColumnRef:
		if len(x.ColumnRef.Fields) != 1 {
			return other("qualified column")
		}
		s, ok := strVal(x.ColumnRef.Fields[0])
		if !ok {
			return other("star")
		}
		return SNode{"k": "col", "name": s, "codes": codes(s)}
	case *pg_query.Node_AConst:
		c := x.AConst
		if c.Isnull {
			return other("null")
		}
		switch v := c.Val.(type) {
		case *pg_query.A_Const_Ival:
			return numConst("int", strconv.FormatInt(int64(v.Ival.Ival), 10))
		case *pg_query.A_Const_Fval:
			return numConst("float", v.Fval.Fval)
		case *pg_query.A_Const_Sval:
			return SNode{"k": "const", "ty": "str", "text": v.Sval.Sval, "n": 0, "exact": true, "codes": codes(v.Sval.Sval), "key": "", "fkey": ""}
		case *pg_query.A_Const_Boolval:
			return other("bool const")
		}
		// an integer zero arrives with no value set in this protobuf version
		if c.Val == nil {
			return numConst("int", "0")
		}
		return other("const")
	case *pg_query.Node_ParamRef:
		return SNode{"k": "param", "n": int(x.ParamRef.Number)}
	}
	return other(fmt.Sprintf("%T", n.Node))
}

// SQLRead is what PostgreSQL's parser makes of a rendered filter.
type SQLRead struct {
	PgOK     bool   `json:"pg_ok"`    // the wrapped statement parses
	Stmts    int    `json:"stmts"`    // number of statements
	FrameOK  bool   `json:"frame_ok"` // it is exactly SELECT 1 FROM t WHERE <expr>, nothing else filled in
	NPlace   int    `json:"nplace"`   // `?` placeholders outside quoted identifiers and constants
	Comments int    `json:"comments"` // comment tokens seen by PostgreSQL's scanner
	Ast      SNode  `json:"ast"`
	Err      string `json:"err,omitempty"`
}

// rewritePlaceholders replaces every `?` that PostgreSQL's scanner sees as a token of its own by $1, $2, ...
func rewritePlaceholders(sql string) (string, int, int, error) {
	res, err := pg_query.Scan(sql)
	if err != nil {
		return sql, 0, 0, err
	}
	var sb strings.Builder
	last, n, comments := 0, 0, 0
	for _, t := range res.Tokens {
		if t.Token == pg_query.Token_SQL_COMMENT || t.Token == pg_query.Token_C_COMMENT {
			comments++
		}
		txt := sql[t.Start:t.End]
		if txt == "?" {
			n++
			sb.WriteString(sql[last:t.Start])
			sb.WriteString("$" + strconv.Itoa(n))
			last = int(t.End)
		}
	}
	sb.WriteString(sql[last:])
	return sb.String(), n, comments, nil
}

func readSQL(filter string) SQLRead {
	out := SQLRead{Ast: other("unparsed")}
	full := "SELECT 1 FROM t WHERE (" + filter + ")"
	rew, n, comments, err := rewritePlaceholders(full)
	if err != nil {
		out.Err = err.Error()
		return out
	}
	out.NPlace, out.Comments = n, comments
	tree, err := pg_query.Parse(rew)
	if err != nil {
		out.Err = err.Error()
		return out
	}
	out.PgOK = true
	out.Stmts = len(tree.Stmts)
	if len(tree.Stmts) != 1 {
		return out
	}
	sel, ok := tree.Stmts[0].Stmt.Node.(*pg_query.Node_SelectStmt)
	if !ok {
		return out
	}
	s := sel.SelectStmt
	frame := len(s.TargetList) == 1 && len(s.FromClause) == 1 && s.WhereClause != nil &&
		len(s.DistinctClause) == 0 && s.IntoClause == nil && len(s.GroupClause) == 0 && s.HavingClause == nil &&
		len(s.WindowClause) == 0 && len(s.ValuesLists) == 0 && len(s.SortClause) == 0 && s.LimitOffset == nil &&
		s.LimitCount == nil && len(s.LockingClause) == 0 && s.WithClause == nil &&
		s.Op == pg_query.SetOperation_SETOP_NONE && s.Larg == nil && s.Rarg == nil
	if frame {
		rt, ok1 := s.TargetList[0].Node.(*pg_query.Node_ResTarget)
		rv, ok2 := s.FromClause[0].Node.(*pg_query.Node_RangeVar)
		frame = ok1 && ok2 && rt.ResTarget.Name == "" && rv.RangeVar.Relname == "t" && rv.RangeVar.Schemaname == "" && rv.RangeVar.Alias == nil
		if frame {
			c, okc := rt.ResTarget.Val.Node.(*pg_query.Node_AConst)
			frame = okc
			if okc {
				iv, oki := c.AConst.Val.(*pg_query.A_Const_Ival)
				frame = oki && iv.Ival.Ival == 1
			}
		}
	}
	out.FrameOK = frame
	if s.WhereClause != nil {
		out.Ast = normExpr(s.WhereClause)
	}
	return out
}
