package main

// Recorder for the lexer family (C16, lexical halves of C09/C08, byte-level C01): inputs are sequences of
// symbols of the alphabet of spec/Lexer.tla; the real lexer's calls are logged with their offsets
// converted to symbol positions.

import (
	"encoding/json"
	"fmt"
	"os"
	"strings"
	"unicode/utf8"

	"github.com/grindlemire/go-lucene/internal/lex"
)

// symBytes gives every symbol of spec/Lexer.tla its bytes.
var symBytes = map[string]string{
	"A": "A", "N": "N", "D": "D", "O": "O", "R": "R", "T": "T", "o": "o", "r": "r", "x": "x",
	"EACUTE": "é", "CJK": "字", "d1": "1", "UDIGIT": "٣", "UND": "_",
	"STAR": "*", "QM": "?", "SP": " ", "TAB": "\t", "CR": "\r", "NL": "\n",
	"LP": "(", "RP": ")", "LS": "[", "RS": "]", "LC": "{", "RC": "}", "COLON": ":", "PLUS": "+", "EQ": "=",
	"GT": ">", "TILDE": "~", "CARET": "^", "LT": "<",
	"HASH": "#", "SEMI": ";", "PCT": "%", "COMMA": ",", "NUL": "\x00", "BAD": "\xff", "NBSP": " ",
	"BANG": "!", "AMP": "&", "PIPE": "|", "AT": "@", "USYM": "\u203a", "LSEP": "\u2028", "DEL": "\x7f", "CTRL": "\x01", "UREPL": "\ufffd", "LDQ": "\u201c", "RDQ": "\u201d", "USUP": "\u00b2", "UFRAC": "\u00bd",
	"BS": "\\", "MINUS": "-", "DOT": ".", "DQ": "\"", "SQ": "'", "SL": "/",
}

var lexTypNames = map[lex.TokType]string{lex.TErr: "ERR", lex.TLiteral: "LITERAL", lex.TQuoted: "QUOTED", lex.TRegexp: "REGEXP", lex.TEOF: "EOF"}

func lexTypName(t lex.TokType) string {
	if n, ok := lexTypNames[t]; ok {
		return n
	}
	if n, ok := ntNames[t]; ok {
		return n
	}
	return fmt.Sprintf("T%d", int(t))
}

// symInput is an input with the byte offset of every symbol boundary.
type symInput struct {
	syms []string
	text string
	offs []int       // offs[i] = byte offset where symbol i starts; offs[len] = len(text)
	idx  map[int]int // byte offset -> symbol index
}

func newSymInput(syms []string) *symInput {
	in := &symInput{syms: syms, idx: map[int]int{}}
	var sb strings.Builder
	for i, s := range syms {
		in.offs = append(in.offs, sb.Len())
		in.idx[sb.Len()] = i
		sb.WriteString(symBytes[s])
	}
	in.offs = append(in.offs, sb.Len())
	in.idx[sb.Len()] = len(syms)
	in.text = sb.String()
	return in
}

func (in *symInput) sym(off int) int {
	if i, ok := in.idx[off]; ok {
		return i
	}
	return -1
}

type lexState struct {
	Pos   int  `json:"pos"`
	Start int  `json:"start"`
	AtEOF bool `json:"atEOF"`
	Len   int  `json:"len"`
}

type lexCall struct {
	C      string
	Typ    string
	S      int
	E      int
	TextOK bool
	B      lexState
	A      lexState
}

// MarshalJSON writes a call as the tuple <<c, typ, s, e, text_ok, <<pos, start, atEOF, len>> before, same after>>
// (spec/Segmentation.tla reads it through accessor operators); tuples keep the trace files small.
func (c lexCall) MarshalJSON() ([]byte, error) {
	st := func(s lexState) []any { return []any{s.Pos, s.Start, s.AtEOF, s.Len} }
	return json.Marshal([]any{c.C, c.Typ, c.S, c.E, c.TextOK, st(c.B), st(c.A)})
}

func (in *symInput) state(l *lex.Lexer) lexState {
	st := l.VerifState()
	if st.InputLen == 0 && len(in.text) != 0 {
		// errorf truncated the input: offsets are all zero
		return lexState{Pos: st.Pos, Start: st.Start, AtEOF: st.AtEOF, Len: 0}
	}
	return lexState{Pos: in.sym(st.Pos), Start: in.sym(st.Start), AtEOF: st.AtEOF, Len: len(in.syms)}
}

func (in *symInput) call(l *lex.Lexer, peek bool) (c lexCall) {
	c = lexCall{C: "next", B: in.state(l)}
	var t lex.Token
	panicked := false
	func() {
		defer func() {
			if p := recover(); p != nil {
				panicked = true
			}
		}()
		if peek {
			c.C = "peek"
			t = l.Peek()
		} else {
			t = l.Next()
		}
	}()
	if panicked { // no token at all: a type no clause of the specification accepts
		c.A = c.B
		c.Typ, c.S, c.E = "PANIC", -1, -1
		return c
	}
	c.A = in.state(l)
	c.Typ = lexTypName(t.Typ)
	p := t.VerifPos()
	c.S = in.sym(p)
	switch t.Typ {
	case lex.TEOF, lex.TErr:
		c.E = c.S
		c.TextOK = true
	default:
		c.E = in.sym(p + len(t.Val))
		c.TextOK = p >= 0 && p+len(t.Val) <= len(in.text) && in.text[p:p+len(t.Val)] == t.Val
	}
	return c
}

// schedule runs the lexer with a Peek/Next schedule: mode 0 = Next only, 1 = one Peek before every Next,
// 2 = two Peeks before every second Next.  Three more Next calls follow the first EOF/ERR.
func (in *symInput) schedule(mode int) []lexCall {
	l := lex.Lex(in.text)
	calls := []lexCall{}
	after := -1
	for i := 0; i < len(in.syms)+6; i++ {
		if mode == 1 || (mode == 2 && i%2 == 1) {
			calls = append(calls, in.call(l, true))
			if mode == 2 {
				calls = append(calls, in.call(l, true))
			}
		}
		c := in.call(l, false)
		calls = append(calls, c)
		if after < 0 && (c.Typ == "EOF" || c.Typ == "ERR") {
			after = 0
		} else if after >= 0 {
			after++
			if after >= 3 {
				break
			}
		}
	}
	return calls
}

// cmdLexEnum: every symbol sequence of length 0..n over the alphabet.
// Output line: {id, inp, a (Next only), b (Peek before every Next), c (mixed), parse, parse_err}
func cmdLexEnum(args []string) {
	fs := newFlags("lex-enum", args)
	n := fs.Int("n", 3, "max symbols")
	alpha := fs.String("alphabet", "", "comma separated symbols")
	out := fs.String("out", "", "output ndjson")
	shard := fs.String("shard", "0/1", "i/k")
	random := fs.Int("random", 0, "number of random inputs instead of exhaustive enumeration")
	rlen := fs.Int("len", 16, "max length of random inputs")
	seed := fs.Int64("seed", 1, "seed")
	variants := fs.Bool("variants", false, "also record whitespace / keyword-case variants (C09)")
	observe := fs.Bool("observe", false, "also record the observables of C01")
	withJSON := fs.Bool("json", false, "only inputs that parse: record the JSON round trip (C12)")
	fs.Parse(args)
	var si, sk int
	fmt.Sscanf(*shard, "%d/%d", &si, &sk)
	alphabet := strings.Split(*alpha, ",")
	for _, a := range alphabet {
		if _, ok := symBytes[a]; !ok {
			fatal(fmt.Errorf("unknown symbol %q", a))
		}
	}
	r, closeFn := newRecorder(*out, false)
	defer closeFn()
	id, written := 0, 0
	rng := newRng(*seed)
	run := func(seq []string) {
		in := newSymInput(append([]string{}, seq...))
		pr := r.record(id, in.text, "")
		if *withJSON {
			if pr.expr == nil || !utf8.ValidString(in.text) {
				return
			}
			prd := r.record(id, in.text, "df")
			line := map[string]any{"id": id, "q": in.syms, "res": slim(pr), "resdf": slim(prd), "rt": roundTrip(pr.expr)}
			if prd.expr != nil {
				line["rtdf"] = roundTrip(prd.expr)
			}
			r.write(line)
			written++
			return
		}
		line := map[string]any{"id": id, "inp": in.syms, "q": in.text, "a": in.schedule(0), "b": in.schedule(1 + id%2),
			"parse": pr.Outcome}
		if *observe {
			observeAll(pr)
			prd := r.record(id, in.text, "df")
			observeAll(prd)
			line["res"] = slim(pr)
			line["resdf"] = slim(prd)
		}
		if *variants {
			line["tree"] = pr.Tree
			line["variants"] = wsVariants(r, in, rng)
		}
		r.write(line)
		written++
	}
	if *random > 0 {
		for i := 0; i < *random; i++ {
			id++
			l := rng.Intn(*rlen + 1)
			seq := make([]string, l)
			for j := range seq {
				seq[j] = alphabet[rng.Intn(len(alphabet))]
			}
			run(seq)
		}
	} else {
		seq := make([]string, 0, *n)
		var rec func()
		rec = func() {
			id++
			if id%sk == si {
				run(seq)
			}
			if len(seq) == *n {
				return
			}
			for _, a := range alphabet {
				seq = append(seq, a)
				rec()
				seq = seq[:len(seq)-1]
			}
		}
		rec()
	}
	summary(map[string]any{"inputs": written})
	_ = os.Stdout
}

// wsVariants builds the layout variants of C09 from the REAL segmentation of the input (whitespace is only
// added at boundaries of the original tokens) and parses each.
func wsVariants(r *recorder, in *symInput, rng interface{ Intn(int) int }) []map[string]any {
	type span struct {
		s, e int // byte offsets
		typ  lex.TokType
	}
	var spans []span
	l := lex.Lex(in.text)
	defer func() { recover() }()
	for i := 0; i <= len(in.text)+1; i++ {
		t := l.Next()
		if t.Typ == lex.TEOF || t.Typ == lex.TErr {
			break
		}
		spans = append(spans, span{t.VerifPos(), t.VerifPos() + len(t.Val), t.Typ})
	}
	ws := []string{" ", "\t", "\n", "\r", " \t\r\n "}
	pick := func() string { return ws[rng.Intn(len(ws))] }
	build := func(lead, trail string, gap func(i int) string, flip bool) string {
		var sb strings.Builder
		sb.WriteString(lead)
		last := 0
		for i, sp := range spans {
			sb.WriteString(in.text[last:sp.s])
			if i > 0 {
				sb.WriteString(gap(i))
			}
			tok := in.text[sp.s:sp.e]
			if flip && (sp.typ == lex.TAnd || sp.typ == lex.TOr || sp.typ == lex.TNot || sp.typ == lex.TTO) {
				if tok == strings.ToUpper(tok) {
					tok = strings.ToLower(tok)
				} else {
					tok = strings.ToUpper(tok)
				}
			}
			sb.WriteString(tok)
			last = sp.e
		}
		sb.WriteString(in.text[last:])
		sb.WriteString(trail)
		return sb.String()
	}
	none := func(int) string { return "" }
	cands := []struct{ kind, q string }{
		{"lead", build(pick(), "", none, false)},
		{"trail", build("", pick(), none, false)},
		{"gaps", build("", "", func(int) string { return pick() }, false)},
		{"all", build(pick(), pick(), func(int) string { return pick() }, true)},
		{"case", build("", "", none, true)},
	}
	out := []map[string]any{}
	for _, c := range cands {
		if c.q == in.text {
			continue
		}
		pr := r.record(0, c.q, "")
		out = append(out, map[string]any{"kind": c.kind, "q": c.q, "outcome": pr.Outcome, "tree": pr.Tree})
	}
	return out
}

// cmdLexOne: a single input given as symbols (replay of one case).
func cmdLexOne(args []string) {
	fs := newFlags("lex-one", args)
	syms := fs.String("syms", "", "comma separated symbols")
	out := fs.String("out", "", "output ndjson")
	variants := fs.Bool("variants", false, "record layout variants")
	observe := fs.Bool("observe", false, "record observables")
	fs.Parse(args)
	r, closeFn := newRecorder(*out, false)
	defer closeFn()
	seq := []string{}
	if *syms != "" {
		seq = strings.Split(*syms, ",")
	}
	in := newSymInput(seq)
	pr := r.record(1, in.text, "")
	line := map[string]any{"id": 1, "inp": in.syms, "q": in.text, "a": in.schedule(0), "b": in.schedule(1), "parse": pr.Outcome}
	if *observe {
		observeAll(pr)
		prd := r.record(1, in.text, "df")
		observeAll(prd)
		line["res"] = slim(pr)
		line["resdf"] = slim(prd)
	}
	if *variants {
		line["tree"] = pr.Tree
		line["variants"] = wsVariants(r, in, newRng(1))
	}
	r.write(line)
	summary(map[string]any{"inputs": 1})
}
