--------------------------- MODULE JudgeQuote ---------------------------
(* Verdicts for C08 on what the REAL code did with a value string w (harness quote-enum).             *)
(* w and everything compared with it are byte-code sequences, so no character is lost in transit.     *)
(* quoted  = the query  f:"w"          escaped = the query  f:<w with a backslash before each special>  *)
EXTENDS Integers, Sequences, FiniteSets, TLC, Json

CONSTANTS ResFile, VerdictFile, Prop, Shards
Lines == ndJsonDeserialize(ResFile)

Fail(c, clause) == [prop |-> "C08", id |-> c.id, q |-> c.wsyms, clause |-> clause, kf |-> "none"]
FieldF == <<102>>       \* the field name "f"

\* the value in the tree: one plain string leaf under EQUALS, equal to w byte for byte
TreeOk(f, w)  == f.outcome = "ok" /\ f.leaf.top = "EQUALS" /\ f.leaf.op = "LIT" /\ f.leaf.ty = "str"
                 /\ f.leaf.codes = w /\ f.leaf.col = FieldF
\* the inline SQL constant as PostgreSQL decodes it
SqlOk(f, w)   == f.sql_out = "ok" /\ f.sql.pg_ok /\ f.sql.frame_ok /\ f.sql.ast.k = "cmp" /\ f.sql.ast.op = "="
                 /\ f.sql.ast.l.k = "col" /\ f.sql.ast.l.codes = FieldF
                 /\ f.sql.ast.r.k = "const" /\ f.sql.ast.r.ty = "str" /\ f.sql.ast.r.codes = w
\* the parameter list
ParamOk(f, w) == f.par_out = "ok" /\ Len(f.params) = 1 /\ f.params[1].ty = "str" /\ f.params[1].codes = w

\* the quoted text as one item of a value list  f:(<the same digits bare | yy> OR "w" OR zz): three items, the middle one is that string
ListOk(f, w)  == f.outcome = "ok" /\ f.top = "IN" /\ Len(f.items) = 3
                 /\ f.items[2].op = "LIT" /\ f.items[2].ty = "str" /\ f.items[2].codes = w
                 /\ f.par_out = "ok" /\ Len(f.params) = 3 /\ f.params[2].ty = "str" /\ f.params[2].codes = w
\* (a quoted text holding * or ? is a plain string too, but the list is then no longer an IN list of plain values on the pinned tree:
\* the clause is about lists of plain values)
HasWild(w) == \E i \in DOMAIN w : w[i] \in {42, 63}
\* the quoted text as a bare term under an operator, scoped by a default field ("w" AND g:y, default field dd): still that plain string
DfOk(f, w) == f.outcome = "ok" /\ f.top = "AND" /\ f.lop = "EQUALS" /\ f.col = <<100,100>>
              /\ f.op = "LIT" /\ f.ty = "str" /\ f.codes = w
              /\ f.par_out = "ok" /\ Len(f.params) = 2 /\ f.params[1].ty = "str" /\ f.params[1].codes = w
C08(c) ==
     (IF "dfterm" \notin DOMAIN c \/ DfOk(c.dfterm, c.w) THEN <<>> ELSE <<Fail(c, "quoted text as a default-field term under an operator is not that string value / parameter")>>)
  \o (IF "listed" \notin DOMAIN c \/ HasWild(c.w) \/ ListOk(c.listed, c.w) THEN <<>> ELSE <<Fail(c, "quoted text as a list item is not that string value / parameter")>>)
  \o (IF TreeOk(c.quoted, c.w)  THEN <<>> ELSE <<Fail(c, "quoted text is not that string value in the tree")>>)
  \o (IF SqlOk(c.quoted, c.w)   THEN <<>> ELSE <<Fail(c, "quoted text is not that constant in the inline SQL")>>)
  \o (IF ParamOk(c.quoted, c.w) THEN <<>> ELSE <<Fail(c, "quoted text is not that parameter")>>)
  \o (IF ~c.esc_applicable \/ TreeOk(c.escaped, c.w) THEN <<>> ELSE <<Fail(c, "escaped bare word is not that plain value in the tree")>>)
  \o (IF ~c.esc_applicable \/ (SqlOk(c.escaped, c.w) /\ ParamOk(c.escaped, c.w)) THEN <<>>
      ELSE <<Fail(c, "escaped bare word is not that value in the SQL constant / parameter")>>)
Judge(c) == C08(c)

VARIABLES sh, n, last, fails, kfs, nfail, nkf, judged
vars == <<sh, n, last, fails, kfs, nfail, nkf, judged>>
Open(f)  == SelectSeq(f, LAMBDA v : v.kf = "none")
Known(f) == SelectSeq(f, LAMBDA v : v.kf # "none")
Init == sh \in 0..(Shards - 1) /\ n = sh /\ last = <<>> /\ fails = <<>> /\ kfs = <<>> /\ nfail = 0 /\ nkf = 0 /\ judged = 0
Next == /\ n < Len(Lines) + Shards /\ n' = n + Shards /\ UNCHANGED sh
        /\ last' = IF n < Len(Lines) THEN Judge(Lines[n + 1]) ELSE <<>>
        /\ fails' = IF Len(fails) >= 100 THEN fails ELSE fails \o Open(last)
        /\ kfs' = IF Len(kfs) >= 100 THEN kfs ELSE kfs \o Known(last)
        /\ nfail' = nfail + Len(Open(last)) /\ nkf' = nkf + Len(Known(last))
        /\ judged' = judged + (IF n < Len(Lines) THEN 1 + (IF Lines[n + 1].esc_applicable THEN 1 ELSE 0) ELSE 0)
Spec == Init /\ [][Next]_vars
Report == n >= Len(Lines) + Shards =>
            /\ PrintT("JUDGED " \o ToJson([prop |-> Prop, shard |-> sh, judged |-> judged, failures |-> nfail, known |-> nkf]))
            /\ ndJsonSerialize(VerdictFile \o "." \o ToString(sh), fails \o kfs)
=========================================================================
