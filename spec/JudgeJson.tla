--------------------------- MODULE JudgeJson ---------------------------
(* Verdicts for C13 on what the REAL decoder did with a byte string (harness json-docs): decoding returns a  *)
(* value or an error; on a decoded expression that passes Validate every printer / encoder / renderer        *)
(* returns normally.                                                                                          *)
EXTENDS Integers, Sequences, FiniteSets, TLC, Json

CONSTANTS ResFile, VerdictFile, Prop, Shards
\* a line is the tuple <<id, kind, dec, validate, str, gostr, json, sql, sqlp, doc bytes>>
Raw == ndJsonDeserialize(ResFile)
Rec(t) == [id |-> t[1], kind |-> t[2], dec |-> t[3], validate |-> t[4], str |-> t[5], gostr |-> t[6], json |-> t[7],
           sql |-> t[8], sqlp |-> t[9], doc_codes |-> t[10]]
Lines == [i \in DOMAIN Raw |-> Rec(Raw[i])]

Fail(c, clause) == [prop |-> "C13", id |-> c.id, q |-> c.doc_codes, clause |-> clause, kf |-> "none", kind |-> c.kind]
Normal(o) == o \in {"ok", "err", "skip"}
C13(c) ==
     (IF c.dec \in {"ok","err"} THEN <<>> ELSE <<Fail(c, "decoding panicked")>>)
  \o (IF Normal(c.validate) THEN <<>> ELSE <<Fail(c, "Validate panicked on a decoded expression")>>)
  \o (IF c.validate = "ok" => (Normal(c.str) /\ Normal(c.gostr) /\ Normal(c.json) /\ Normal(c.sql) /\ Normal(c.sqlp)) THEN <<>>
      ELSE <<Fail(c, "a validated expression panicked in: "
                     \o (IF Normal(c.str) THEN "" ELSE "String ") \o (IF Normal(c.gostr) THEN "" ELSE "GoString ")
                     \o (IF Normal(c.json) THEN "" ELSE "Marshal ") \o (IF Normal(c.sql) THEN "" ELSE "Render ")
                     \o (IF Normal(c.sqlp) THEN "" ELSE "RenderParam"))>>)
Judge(c) == C13(c)

VARIABLES sh, n, last, fails, kfs, nfail, nkf, judged, nvalid
vars == <<sh, n, last, fails, kfs, nfail, nkf, judged, nvalid>>
Open(f)  == SelectSeq(f, LAMBDA v : v.kf = "none")
Known(f) == SelectSeq(f, LAMBDA v : v.kf # "none")
Init == sh \in 0..(Shards - 1) /\ n = sh /\ last = <<>> /\ fails = <<>> /\ kfs = <<>> /\ nfail = 0 /\ nkf = 0 /\ judged = 0 /\ nvalid = 0
Next == /\ n < Len(Lines) + Shards /\ n' = n + Shards /\ UNCHANGED sh
        /\ last' = IF n < Len(Lines) THEN Judge(Lines[n + 1]) ELSE <<>>
        /\ fails' = IF Len(fails) >= 100 THEN fails ELSE fails \o Open(last)
        /\ kfs' = IF Len(kfs) >= 100 THEN kfs ELSE kfs \o Known(last)
        /\ nfail' = nfail + Len(Open(last)) /\ nkf' = nkf + Len(Known(last))
        /\ judged' = judged + (IF n < Len(Lines) THEN 1 ELSE 0)
        /\ nvalid' = nvalid + (IF n < Len(Lines) /\ Lines[n + 1].validate = "ok" THEN 1 ELSE 0)
Spec == Init /\ [][Next]_vars
Report == n >= Len(Lines) + Shards =>
            /\ PrintT("JUDGED " \o ToJson([prop |-> Prop, shard |-> sh, judged |-> judged, validated |-> nvalid, failures |-> nfail, known |-> nkf]))
            /\ ndJsonSerialize(VerdictFile \o "." \o ToString(sh), fails \o kfs)
=========================================================================
