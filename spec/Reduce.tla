---------------------------- MODULE Reduce ----------------------------
(* MECH: the twelve reducers of pkg/lucene/reduce/reduce.go in their fixed order, and the     *)
(* pop-one-more-and-retry loop of parser.reduce (parse.go:196).                               *)
(* A stack item is [k |-> "t", t |-> token type] or [k |-> "e", e |-> tree].                  *)
EXTENDS Expr

TokItem(t) == [k |-> "t", t |-> t]
ExpItem(e) == [k |-> "e", e |-> e]
IsTokI(x)  == x.k = "t"
IsExpI(x)  == x.k = "e"
IsTok(x, t) == x.k = "t" /\ x.t = t
IsTokIn(x, S) == x.k = "t" /\ x.t \in S

\* reduce.go:516 wrapLiteral - scope a bare term to the default field ("" = none)
WrapLiteral(e, df) == IF df # "" /\ IsLeaf(e) THEN MkEq(ColLeaf(df), e) ELSE e

\* reduce.go:82 isChainedOrLiterals: <<ok, literals>>
RECURSIVE Chain(_)
Chain(e) == IF e.op = "LIT" THEN <<TRUE, <<e>>>>
            ELSE IF e.op = "OR" THEN LET a == Chain(e.l)  b == Chain(e.r)
                                     IN <<a[1] /\ b[1], a[2] \o b[2]>>
            ELSE <<FALSE, <<>>>>

None == [ok |-> FALSE]
Res(items, dropped, r) == [ok |-> TRUE, items |-> items, drop |-> dropped, r |-> r]

\* one attempt of reduce.Reduce on the popped elements `top`; r = index of the reducer that fired
Red(top, df) ==
  LET len == Len(top) IN
  \* 1 and, 2 or
  IF len = 3 /\ IsTokIn(top[2], {"AND","OR"}) /\ IsExpI(top[1]) /\ IsExpI(top[3])
  THEN Res(<<ExpItem(MkBin(top[2].t, WrapLiteral(top[1].e, df), WrapLiteral(top[3].e, df)))>>, 1,
           IF top[2].t = "AND" THEN 1 ELSE 2)
  \* 3 equal
  ELSE IF len = 3 /\ IsTokIn(top[2], {"EQUAL","COLON"}) /\ IsExpI(top[1]) /\ IsExpI(top[3])
  THEN LET c == Chain(top[3].e) IN
       IF c[1] /\ Len(c[2]) > 1 THEN Res(<<ExpItem(MkIn(top[1].e, c[2]))>>, 1, 3)
       ELSE Res(<<ExpItem(MkEq(top[1].e, top[3].e))>>, 1, 3)
  \* 4 compare
  ELSE IF len = 4 /\ IsTok(top[2], "COLON") /\ IsTokIn(top[3], {"GREATER","LESS"}) /\ IsExpI(top[1]) /\ IsExpI(top[4])
  THEN Res(<<ExpItem(MkCmp(top[3].t, top[1].e, top[4].e))>>, 2, 4)
  \* 5 compareEq
  ELSE IF len = 5 /\ IsTok(top[2], "COLON") /\ IsTokIn(top[3], {"GREATER","LESS"}) /\ IsTok(top[4], "EQUAL")
          /\ IsExpI(top[1]) /\ IsExpI(top[5])
  THEN Res(<<ExpItem(MkCmp(IF top[3].t = "GREATER" THEN "GREATER_EQ" ELSE "LESS_EQ", top[1].e, top[5].e))>>, 3, 5)
  \* 6 not - looks at the last two elements of any length
  ELSE IF len >= 2 /\ IsTok(top[len-1], "NOT") /\ IsExpI(top[len])
  THEN Res(SubSeq(top, 1, len-2) \o <<ExpItem(MkUn("NOT", WrapLiteral(top[len].e, df)))>>, 1, 6)
  \* 7 sub
  ELSE IF len = 3 /\ IsTok(top[1], "LPAREN") /\ IsTok(top[3], "RPAREN") /\ IsExpI(top[2])
  THEN Res(<<top[2]>>, 2, 7)
  \* 8 must, 9 mustNot
  ELSE IF len = 2 /\ IsTokIn(top[1], {"PLUS","MINUS"}) /\ IsExpI(top[2])
  THEN Res(<<ExpItem(MkUn(IF top[1].t = "PLUS" THEN "MUST" ELSE "MUST_NOT", WrapLiteral(top[2].e, df)))>>, 1,
           IF top[1].t = "PLUS" THEN 8 ELSE 9)
  \* 10 fuzzy
  ELSE IF len = 2 /\ IsTok(top[2], "TILDE") /\ IsExpI(top[1])
  THEN Res(<<ExpItem(MkSuf("FUZZY", WrapLiteral(top[1].e, df), "1"))>>, 1, 10)
  ELSE IF len = 3 /\ IsTok(top[2], "TILDE") /\ IsExpI(top[1]) /\ IsExpI(top[3])
          /\ top[3].e.op = "LIT" /\ top[3].e.ty = "int"
  THEN Res(<<ExpItem(MkSuf("FUZZY", WrapLiteral(top[1].e, df), top[3].e.v))>>, 1, 10)
  \* 11 boost
  ELSE IF len = 2 /\ IsTok(top[2], "CARROT") /\ IsExpI(top[1])
  THEN Res(<<ExpItem(MkSuf("BOOST", WrapLiteral(top[1].e, df), "1"))>>, 1, 11)
  ELSE IF len = 3 /\ IsTok(top[2], "CARROT") /\ IsExpI(top[1]) /\ IsExpI(top[3])
          /\ top[3].e.op = "LIT" /\ top[3].e.ty \in {"int","float"} /\ top[3].e.sg = "p"
  THEN Res(<<ExpItem(MkSuf("BOOST", WrapLiteral(top[1].e, df), top[3].e.v))>>, 1, 11)
  \* 12 rangeop
  ELSE IF len = 7 /\ IsTok(top[2], "COLON") /\ IsTokIn(top[3], {"LSQUARE","LCURLY"})
          /\ IsTokIn(top[7], {"RSQUARE","RCURLY"}) /\ IsTok(top[5], "TO")
          /\ IsExpI(top[1]) /\ IsExpI(top[4]) /\ IsExpI(top[6])
  THEN Res(<<ExpItem(MkRange(top[1].e, top[4].e, top[6].e, top[3].t = "LSQUARE" /\ top[7].t = "RSQUARE"))>>, 4, 12)
  ELSE None

\* parse.go:196 - pop one more element until some reducer fires; k = elements popped
RECURSIVE ReduceFrom(_, _, _)
ReduceFrom(st, k, df) ==
  IF k > Len(st) THEN None
  ELSE LET r == Red(SubSeq(st, Len(st)-k+1, Len(st)), df)
       IN IF r.ok THEN [ok |-> TRUE, stack |-> SubSeq(st, 1, Len(st)-k) \o r.items, drop |-> r.drop, k |-> k, r |-> r.r]
          ELSE ReduceFrom(st, k+1, df)
ReduceStack(st, df) == ReduceFrom(st, 1, df)
=======================================================================
