-------------------------- MODULE Segmentation --------------------------
(* REF for C16: what a lossless token stream is, stated over the recorded calls only (no reference to *)
(* the scanning loops of Lexer.tla).  inp = the input as symbols; a call record is                    *)
(*   [c : "next"|"peek", typ, s, e, text_ok, b : state before, a : state after]                        *)
(* with state = [pos, start, atEOF, len]; s/e are 0-based symbol offsets (e exclusive).  On disk a call *)
(* is the tuple <<c, typ, s, e, text_ok, before, after>>; Call() turns it into the record.             *)
EXTENDS Integers, Sequences, FiniteSets

RLetters == {"A","N","D","O","R","T","o","r","x","EACUTE","CJK"}
RDigits  == {"d1","UDIGIT"}
RWordCh  == RLetters \cup RDigits \cup {"UND","STAR","QM"}
RSpaces  == {"SP","TAB","CR","NL"}
RSymOf   == [LPAREN |-> "LP", RPAREN |-> "RP", LSQUARE |-> "LS", RSQUARE |-> "RS", LCURLY |-> "LC", RCURLY |-> "RC",
             COLON |-> "COLON", PLUS |-> "PLUS", EQUAL |-> "EQ", GREATER |-> "GT", TILDE |-> "TILDE", CARROT |-> "CARET",
             LESS |-> "LT", MINUS |-> "MINUS"]
\* characters that cannot start a token
RCannotStart == {"HASH","SEMI","PCT","COMMA","NUL","BAD","NBSP","BANG","AMP","PIPE","AT","DOT","USYM","LSEP","DEL","CTRL","UREPL","LDQ","RDQ","USUP","UFRAC"}

Call(k) == [c |-> k[1], typ |-> k[2], s |-> k[3], e |-> k[4], text_ok |-> k[5], b |-> k[6], a |-> k[7]]
Calls(ks) == [i \in DOMAIN ks |-> Call(ks[i])]

AllSpace(inp, a, b) == \A i \in (a + 1)..b : inp[i] \in RSpaces          \* symbols a+1..b (offsets a..b)
Text(inp, t) == SubSeq(inp, t.s + 1, t.e)

RUp(c) == CASE c = "o" -> "O" [] c = "r" -> "R" [] OTHER -> c
RUpSeq(w) == [i \in 1..Len(w) |-> RUp(w[i])]
KwOf == [AND |-> <<"A","N","D">>, OR |-> <<"O","R">>, NOT |-> <<"N","O","T">>, TO |-> <<"T","O">>]

\* w[i..] consists of word characters and escape pairs (an escape at the very end escapes nothing)
RECURSIVE WordBody(_,_)
WordBody(w, i) == IF i > Len(w) THEN TRUE
                  ELSE IF w[i] = "BS" THEN WordBody(w, i + 2)
                  ELSE w[i] \in RWordCh \cup {"DOT","MINUS"} /\ WordBody(w, i + 1)
\* position of the first unescaped slash at or after i (0 if none); escapes skip the next symbol
RECURSIVE FirstSlash(_,_)
FirstSlash(w, i) == IF i > Len(w) THEN 0
                    ELSE IF w[i] = "BS" THEN FirstSlash(w, i + 2)
                    ELSE IF w[i] = "SL" THEN i ELSE FirstSlash(w, i + 1)

WellFormedTok(typ, w) ==
  CASE typ \in DOMAIN RSymOf  -> w = <<RSymOf[typ]>>
    [] typ \in DOMAIN KwOf    -> RUpSeq(w) = KwOf[typ]
    [] typ = "QUOTED"         -> Len(w) >= 2 /\ w[1] \in {"DQ","SQ"} /\ w[Len(w)] = w[1]
                                 /\ \A i \in 2..(Len(w) - 1) : w[i] # w[1]
    [] typ = "REGEXP"         -> Len(w) >= 2 /\ w[1] = "SL" /\ FirstSlash(w, 2) = Len(w)
    [] typ = "LITERAL"        -> /\ Len(w) >= 1
                                 /\ (w[1] \in RWordCh \cup {"BS"} \/ (w[1] = "MINUS" /\ Len(w) >= 2 /\ w[2] \in RDigits))
                                 /\ WordBody(w, 1)
                                 /\ \A k \in DOMAIN KwOf : RUpSeq(w) # KwOf[k]
    [] OTHER -> FALSE

\* a lexical error at offset s is genuine: nothing can start there, or the delimiter opened there never closes
ErrJustified(inp, s) ==
  /\ s < Len(inp)
  /\ LET c == inp[s + 1] IN
     \/ c \in RCannotStart
     \/ c \in {"DQ","SQ"} /\ \A i \in (s + 2)..Len(inp) : inp[i] # c
     \/ c = "SL" /\ FirstSlash(inp, s + 2) = 0

\* ---- the four clauses of C16 over the tokens returned by Next ---------------------------------
Nexts(calls) == SelectSeq(calls, LAMBDA k : k.c = "next")
IsEnd(t) == t.typ \in {"EOF","ERR"}
\* index of the first EOF/ERR token (0 if none)
RECURSIVE FirstEnd(_,_)
FirstEnd(ts, i) == IF i > Len(ts) THEN 0 ELSE IF IsEnd(ts[i]) THEN i ELSE FirstEnd(ts, i + 1)

Lossless(inp, calls) ==
  LET ts == Nexts(calls)  n == FirstEnd(ts, 1) IN
  /\ n > 0                                                  \* the stream ends (finitely many tokens)
  /\ n - 1 <= Len(inp)
  /\ \A i \in 1..(n - 1) : /\ 0 <= ts[i].s /\ ts[i].s < ts[i].e /\ ts[i].e <= Len(inp)
                           /\ ts[i].text_ok /\ WellFormedTok(ts[i].typ, Text(inp, ts[i]))
                           /\ AllSpace(inp, IF i = 1 THEN 0 ELSE ts[i-1].e, ts[i].s)
  /\ LET last == IF n = 1 THEN 0 ELSE ts[n-1].e IN
     IF ts[n].typ = "EOF" THEN AllSpace(inp, last, Len(inp))
     ELSE ts[n].s >= last /\ AllSpace(inp, last, ts[n].s) /\ ErrJustified(inp, ts[n].s)

EofForever(calls) ==
  LET ts == Nexts(calls)  n == FirstEnd(ts, 1) IN
  n > 0 /\ Len(ts) > n /\ \A i \in (n + 1)..Len(ts) : ts[i].typ = "EOF"

\* a Peek returns exactly what the next Next returns ...
\* (the offset of an EOF / error token is not observable through the public Token fields)
SameTok(a, b) == a.typ = b.typ /\ (a.typ \in {"EOF","ERR"} \/ (a.s = b.s /\ a.e = b.e))
RECURSIVE NextAfter(_,_)
NextAfter(calls, i) == IF i > Len(calls) THEN 0 ELSE IF calls[i].c = "next" THEN i ELSE NextAfter(calls, i + 1)
PeekIsNext(calls) == \A i \in DOMAIN calls : calls[i].c = "peek" =>
                        LET j == NextAfter(calls, i + 1) IN j = 0 \/ SameTok(calls[i], calls[j])
\* ... and has no effect on the stream
PeekPure(calls) == \A i \in DOMAIN calls : calls[i].c = "peek" => calls[i].a = calls[i].b
\* the tokens do not depend on the schedule
SameStream(a, b) == LET x == Nexts(a)  y == Nexts(b)  n == FirstEnd(x, 1) IN
                    n > 0 /\ Len(y) >= n /\ \A i \in 1..n : SameTok(x[i], y[i])
HasLexError(calls) == \E i \in DOMAIN calls : calls[i].c = "next" /\ calls[i].typ = "ERR"
=========================================================================
