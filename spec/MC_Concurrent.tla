------------------------- MODULE MC_Concurrent -------------------------
EXTENDS Concurrent
MCSeq == [c \in Calls |-> "r_" \o c]
\* bound the history so the state space is finite: at most MaxDone completed calls
CONSTANT MaxDone
Bound == ndone <= MaxDone
========================================================================
