------------------------------ MODULE Sql ------------------------------
(* REF + ENV for the rendered SQL (C02, C03, C04): the allowed fragment and what a predicate of that     *)
(* fragment means on a row, following the PostgreSQL manual for =, <, <=, >, >=, BETWEEN (inclusive),     *)
(* IN, SIMILAR TO (% any run, _ any one character, \ escapes) and AND/OR/NOT on non-NULL values.          *)
(* The input is the AST PostgreSQL's own parser produced (harness/pgsensor.go), as records:               *)
(*   [k:"bool",op,args] [k:"cmp",op,l,r] [k:"between",x,lo,hi] [k:"in",x,items] [k:"similar",x,pat]       *)
(*   [k:"col",name,codes] [k:"const",ty,text,n,exact,codes] [k:"param",n] [k:"other",node]                 *)
(* Values are [ty : "num"|"str", n : value*10^6, codes : bytes]; a row maps column names to values.        *)
EXTENDS Integers, Sequences, FiniteSets

\* ---- the fragment (C02) -----------------------------------------------------------------------------
RECURSIVE InFragment(_)
InFragment(s) ==
  CASE s.k = "bool"    -> s.op \in {"AND","OR","NOT"} /\ \A i \in DOMAIN s.args : InFragment(s.args[i])
    [] s.k = "cmp"     -> s.op \in {"=","<","<=",">",">=","~"} /\ InFragment(s.l) /\ InFragment(s.r)
    [] s.k = "between" -> InFragment(s.x) /\ InFragment(s.lo) /\ InFragment(s.hi)
    [] s.k = "in"      -> InFragment(s.x) /\ \A i \in DOMAIN s.items : InFragment(s.items[i])
    [] s.k = "similar" -> InFragment(s.x) /\ InFragment(s.pat)
    [] s.k \in {"col","const","param"} -> TRUE
    [] OTHER -> FALSE

RECURSIVE ColsOf(_), StrConstsOf(_), ParamsOf(_)
ColsOf(s) ==
  CASE s.k = "bool"    -> UNION {ColsOf(s.args[i]) : i \in DOMAIN s.args}
    [] s.k = "cmp"     -> ColsOf(s.l) \cup ColsOf(s.r)
    [] s.k = "between" -> ColsOf(s.x) \cup ColsOf(s.lo) \cup ColsOf(s.hi)
    [] s.k = "in"      -> ColsOf(s.x) \cup UNION {ColsOf(s.items[i]) : i \in DOMAIN s.items}
    [] s.k = "similar" -> ColsOf(s.x) \cup ColsOf(s.pat)
    [] s.k = "col"     -> {s.codes}
    [] OTHER -> {}
StrConstsOf(s) ==
  CASE s.k = "bool"    -> UNION {StrConstsOf(s.args[i]) : i \in DOMAIN s.args}
    [] s.k = "cmp"     -> StrConstsOf(s.l) \cup StrConstsOf(s.r)
    [] s.k = "between" -> StrConstsOf(s.x) \cup StrConstsOf(s.lo) \cup StrConstsOf(s.hi)
    [] s.k = "in"      -> StrConstsOf(s.x) \cup UNION {StrConstsOf(s.items[i]) : i \in DOMAIN s.items}
    [] s.k = "similar" -> StrConstsOf(s.x) \cup StrConstsOf(s.pat)
    [] s.k = "const" /\ s.ty = "str" -> {s.codes}
    [] OTHER -> {}
\* placeholders in left-to-right order of the text
ParamsOf(s) ==
  CASE s.k = "bool"    -> LET f[i \in 0..Len(s.args)] == IF i = 0 THEN <<>> ELSE f[i-1] \o ParamsOf(s.args[i]) IN f[Len(s.args)]
    [] s.k = "cmp"     -> ParamsOf(s.l) \o ParamsOf(s.r)
    [] s.k = "between" -> ParamsOf(s.x) \o ParamsOf(s.lo) \o ParamsOf(s.hi)
    [] s.k = "in"      -> ParamsOf(s.x) \o (LET f[i \in 0..Len(s.items)] == IF i = 0 THEN <<>> ELSE f[i-1] \o ParamsOf(s.items[i]) IN f[Len(s.items)])
    [] s.k = "similar" -> ParamsOf(s.x) \o ParamsOf(s.pat)
    [] s.k = "param"   -> <<s.n>>
    [] OTHER -> <<>>

\* ---- values and comparison ------------------------------------------------------------------------
Num(n)        == [ty |-> "num", n |-> n, codes |-> <<>>]
Str(codes)    == [ty |-> "str", n |-> 0, codes |-> codes]
RECURSIVE SeqLess(_,_)
SeqLess(a, b) == IF b = <<>> THEN FALSE ELSE IF a = <<>> THEN TRUE
                 ELSE IF Head(a) # Head(b) THEN Head(a) < Head(b) ELSE SeqLess(Tail(a), Tail(b))
Less(a, b)    == IF a.ty = "num" THEN a.n < b.n ELSE SeqLess(a.codes, b.codes)
Same(a, b)    == IF a.ty = "num" THEN a.n = b.n ELSE a.codes = b.codes
Comparable(a, b) == a.ty = b.ty /\ a.ty \in {"num","str"}
Cmp(op, a, b) == CASE op = "="  -> Same(a, b)    [] op = "<"  -> Less(a, b)   [] op = "<=" -> Less(a, b) \/ Same(a, b)
                   [] op = ">"  -> Less(b, a)    [] op = ">=" -> Less(b, a) \/ Same(a, b)  [] OTHER -> FALSE

\* SIMILAR TO on byte codes: 37 = %  95 = _  92 = \ (escapes the next character).  Other metacharacters of
\* SIMILAR TO (| * + ? { } ( ) [ ]) do not occur in the patterns of this family.
RECURSIVE SimilarTo(_,_)
SimilarTo(p, s) ==
  IF p = <<>> THEN s = <<>>
  ELSE IF Head(p) = 37 THEN \E k \in 0..Len(s) : SimilarTo(Tail(p), SubSeq(s, k + 1, Len(s)))
  ELSE IF Head(p) = 92 /\ Len(p) >= 2 THEN s # <<>> /\ Head(s) = p[2] /\ SimilarTo(SubSeq(p, 3, Len(p)), Tail(s))
  ELSE s # <<>> /\ (Head(p) = 95 \/ Head(p) = Head(s)) /\ SimilarTo(Tail(p), Tail(s))

\* ---- meaning of a predicate on a row (row : column codes -> value) ------------------------------------
ValOfConst(c) == IF c.ty = "str" THEN Str(c.codes) ELSE Num(c.n)
Term(s, row)  == IF s.k = "col" THEN row[s.codes] ELSE ValOfConst(s)
IsTerm(s, row) == (s.k = "col" /\ s.codes \in DOMAIN row) \/ (s.k = "const" /\ (s.ty = "str" \/ s.exact))

\* the predicate is well-typed on the row: every comparison is between two terms of the same kind
RECURSIVE WellTyped(_,_)
WellTyped(s, row) ==
  CASE s.k = "bool"    -> \A i \in DOMAIN s.args : WellTyped(s.args[i], row)
    [] s.k = "cmp"     -> s.op # "~" /\ IsTerm(s.l, row) /\ IsTerm(s.r, row) /\ Comparable(Term(s.l, row), Term(s.r, row))
    [] s.k = "between" -> IsTerm(s.x, row) /\ IsTerm(s.lo, row) /\ IsTerm(s.hi, row)
                          /\ Comparable(Term(s.x, row), Term(s.lo, row)) /\ Comparable(Term(s.x, row), Term(s.hi, row))
    [] s.k = "in"      -> IsTerm(s.x, row) /\ \A i \in DOMAIN s.items : IsTerm(s.items[i], row) /\ Comparable(Term(s.x, row), Term(s.items[i], row))
    [] s.k = "similar" -> IsTerm(s.x, row) /\ IsTerm(s.pat, row) /\ Term(s.x, row).ty = "str" /\ Term(s.pat, row).ty = "str"
    [] OTHER -> FALSE
RECURSIVE EvalSql(_,_)
EvalSql(s, row) ==
  CASE s.k = "bool"    -> IF s.op = "NOT" THEN ~EvalSql(s.args[1], row)
                          ELSE IF s.op = "AND" THEN \A i \in DOMAIN s.args : EvalSql(s.args[i], row)
                          ELSE \E i \in DOMAIN s.args : EvalSql(s.args[i], row)
    [] s.k = "cmp"     -> Cmp(s.op, Term(s.l, row), Term(s.r, row))
    [] s.k = "between" -> Cmp(">=", Term(s.x, row), Term(s.lo, row)) /\ Cmp("<=", Term(s.x, row), Term(s.hi, row))
    [] s.k = "in"      -> \E i \in DOMAIN s.items : Cmp("=", Term(s.x, row), Term(s.items[i], row))
    [] s.k = "similar" -> SimilarTo(Term(s.pat, row).codes, Term(s.x, row).codes)
    [] OTHER -> FALSE

\* ---- substitution of parameters (C04) ---------------------------------------------------------------
\* params[i] = [ty : "int"|"float"|"str", n, exact, codes, text]; the result is an AST with constants
ParamConst(p) == [k |-> "const", ty |-> p.ty, text |-> p.text, n |-> p.n, exact |-> p.exact, codes |-> p.codes, key |-> p.key, fkey |-> p.fkey]
RECURSIVE Subst(_,_)
Subst(s, ps) ==
  CASE s.k = "bool"    -> [s EXCEPT !.args = [i \in DOMAIN s.args |-> Subst(s.args[i], ps)]]
    [] s.k = "cmp"     -> [s EXCEPT !.l = Subst(s.l, ps), !.r = Subst(s.r, ps)]
    [] s.k = "between" -> [s EXCEPT !.x = Subst(s.x, ps), !.lo = Subst(s.lo, ps), !.hi = Subst(s.hi, ps)]
    [] s.k = "in"      -> [s EXCEPT !.x = Subst(s.x, ps), !.items = [i \in DOMAIN s.items |-> Subst(s.items[i], ps)]]
    [] s.k = "similar" -> [s EXCEPT !.x = Subst(s.x, ps), !.pat = Subst(s.pat, ps)]
    [] s.k = "param"   -> IF s.n \in DOMAIN ps THEN ParamConst(ps[s.n]) ELSE [k |-> "other", node |-> "unbound parameter"]
    [] OTHER -> s
\* x BETWEEN lo AND hi is x >= lo AND x <= hi
RECURSIVE NormBetween(_)
NormBetween(s) ==
  CASE s.k = "bool"    -> [s EXCEPT !.args = [i \in DOMAIN s.args |-> NormBetween(s.args[i])]]
    [] s.k = "between" -> [k |-> "bool", op |-> "AND", args |-> << [k |-> "cmp", op |-> ">=", l |-> s.x, r |-> s.lo],
                                                                     [k |-> "cmp", op |-> "<=", l |-> s.x, r |-> s.hi] >>]
    [] s.k = "cmp"     -> [s EXCEPT !.l = NormBetween(s.l), !.r = NormBetween(s.r)]      \* f:<(g:[1 TO 5]) - a range as an operand
    [] OTHER -> s
\* two ASTs are the same predicate text-for-text up to the spelling of numbers (1.50 vs 1.5) and number kind
RECURSIVE SameAst(_,_)
\* numbers are identified by their exact value (key = normalised fraction computed by the harness from the spelling
\* or from the float64 parameter), so 1.50 = 1.5 and numbers of any size compare correctly
SameConst(a, b) == IF a.ty = "str" \/ b.ty = "str" THEN a.ty = b.ty /\ a.codes = b.codes
                   ELSE (a.key # "" /\ a.key = b.key) \/ (a.fkey # "" /\ a.fkey = b.fkey)     \* same number, or same double
SameAst(a, b) ==
  a.k = b.k /\
  CASE a.k = "bool"    -> a.op = b.op /\ Len(a.args) = Len(b.args) /\ \A i \in DOMAIN a.args : SameAst(a.args[i], b.args[i])
    [] a.k = "cmp"     -> a.op = b.op /\ SameAst(a.l, b.l) /\ SameAst(a.r, b.r)
    [] a.k = "between" -> SameAst(a.x, b.x) /\ SameAst(a.lo, b.lo) /\ SameAst(a.hi, b.hi)
    [] a.k = "in"      -> SameAst(a.x, b.x) /\ Len(a.items) = Len(b.items) /\ \A i \in DOMAIN a.items : SameAst(a.items[i], b.items[i])
    [] a.k = "similar" -> SameAst(a.x, b.x) /\ SameAst(a.pat, b.pat)
    [] a.k = "col"     -> a.codes = b.codes
    [] a.k = "const"   -> SameConst(a, b)
    [] a.k = "param"   -> a.n = b.n
    [] OTHER -> FALSE

\* the same predicate up to a tolerance on numeric constants (used only inside known-finding signatures)
RECURSIVE SameAstTol(_,_,_)
SameAstTol(a, b, tol) ==
  a.k = b.k /\
  CASE a.k = "bool"    -> a.op = b.op /\ Len(a.args) = Len(b.args) /\ \A i \in DOMAIN a.args : SameAstTol(a.args[i], b.args[i], tol)
    [] a.k = "cmp"     -> a.op = b.op /\ SameAstTol(a.l, b.l, tol) /\ SameAstTol(a.r, b.r, tol)
    [] a.k = "between" -> SameAstTol(a.x, b.x, tol) /\ SameAstTol(a.lo, b.lo, tol) /\ SameAstTol(a.hi, b.hi, tol)
    [] a.k = "col"     -> a.codes = b.codes
    [] a.k = "const"   -> IF a.ty = "str" \/ b.ty = "str" THEN a.ty = b.ty /\ a.codes = b.codes
                          ELSE a.exact /\ b.exact /\ (a.n - b.n) \in (0 - tol)..tol
    [] OTHER -> FALSE

\* ---- text-keyed evaluation for the structure level of C03 (values from the generator's text pools) -------
\* row : column NAME -> [ty : "num", n] | [ty : "str", text]; strings are only compared for equality here
TVal(c) == IF c.ty = "str" THEN [ty |-> "str", n |-> 0, text |-> c.text] ELSE [ty |-> "num", n |-> c.n, text |-> ""]
TTerm(s, row) == IF s.k = "col" THEN row[s.name] ELSE TVal(s)
TIsTerm(s, row) == (s.k = "col" /\ s.name \in DOMAIN row) \/ (s.k = "const" /\ (s.ty = "str" \/ s.exact))
TCmp(op, a, b) == IF a.ty # b.ty THEN FALSE      \* (a value list may mix kinds; a value of another kind is simply not equal)
                  ELSE IF a.ty = "str" THEN op = "=" /\ a.text = b.text
                  ELSE CASE op = "=" -> a.n = b.n [] op = "<" -> a.n < b.n [] op = "<=" -> a.n <= b.n
                         [] op = ">" -> a.n > b.n [] op = ">=" -> a.n >= b.n [] OTHER -> FALSE
RECURSIVE TWellTyped(_,_), TEval(_,_)
TWellTyped(s, row) ==
  CASE s.k = "bool"    -> \A i \in DOMAIN s.args : TWellTyped(s.args[i], row)
    [] s.k = "cmp"     -> s.op # "~" /\ TIsTerm(s.l, row) /\ TIsTerm(s.r, row) /\ TTerm(s.l, row).ty = TTerm(s.r, row).ty
                          /\ (TTerm(s.l, row).ty = "str" => s.op = "=")
    [] s.k = "between" -> TIsTerm(s.x, row) /\ TIsTerm(s.lo, row) /\ TIsTerm(s.hi, row)
                          /\ TTerm(s.x, row).ty = "num" /\ TTerm(s.lo, row).ty = "num" /\ TTerm(s.hi, row).ty = "num"
    [] s.k = "in"      -> TIsTerm(s.x, row) /\ \A i \in DOMAIN s.items : TIsTerm(s.items[i], row)
    [] OTHER -> FALSE
TEval(s, row) ==
  CASE s.k = "bool"    -> IF s.op = "NOT" THEN ~TEval(s.args[1], row)
                          ELSE IF s.op = "AND" THEN \A i \in DOMAIN s.args : TEval(s.args[i], row)
                          ELSE \E i \in DOMAIN s.args : TEval(s.args[i], row)
    [] s.k = "cmp"     -> TCmp(s.op, TTerm(s.l, row), TTerm(s.r, row))
    [] s.k = "between" -> TCmp(">=", TTerm(s.x, row), TTerm(s.lo, row)) /\ TCmp("<=", TTerm(s.x, row), TTerm(s.hi, row))
    [] s.k = "in"      -> \E i \in DOMAIN s.items : TCmp("=", TTerm(s.x, row), TTerm(s.items[i], row))
    [] OTHER -> FALSE
=========================================================================
