----------------------------- MODULE Expr -----------------------------
(* MECH: the tree type of pkg/lucene/expr as uniform records, the normalisations of expr.Expr *)
(* (expression.go:211-292), parseLiteral (parse.go:223) and Validate (validator.go).         *)
(*                                                                                           *)
(*   leaf    [op : LIT|WILD|REGEXP, ty : str|int|float|col|bool|other, v : text, sg : p|z|n|x] *)
(*   unary   [op : NOT|MUST|MUST_NOT, l]       suffix [op : FUZZY|BOOST, l, p : text]          *)
(*   binary  [op : AND|OR|EQUALS|LIKE|GREATER|LESS|GREATER_EQ|LESS_EQ, l, r]                   *)
(*   range   [op : RANGE, l, lo, hi, inc]      list  [op : IN, l, items : Seq(tree)]           *)
(*   anything the harness cannot project: [op : BAD, why]                                      *)
EXTENDS Tokens

LeafOps == {"LIT","WILD","REGEXP"}
UnOps   == {"NOT","MUST","MUST_NOT"}
SufOps  == {"FUZZY","BOOST"}
CmpOps  == {"GREATER","LESS","GREATER_EQ","LESS_EQ"}
BinOps  == {"AND","OR","EQUALS","LIKE"} \cup CmpOps

Leaf(op, ty, v, sg) == [op |-> op, ty |-> ty, v |-> v, sg |-> sg]
IsLeaf(e) == e.op \in LeafOps
ColLeaf(name) == Leaf("LIT", "col", name, "x")

\* parse.go:223 parseLiteral - what leaf a terminal token becomes; tok = [t |-> kind, v |-> value text]
Sign(kind) == CASE kind \in {"int","float"} -> "p" [] kind \in {"zint","zfloat"} -> "z"
                [] kind \in {"nint","nfloat"} -> "n" [] OTHER -> "x"
LeafOfTok(tok) ==
  CASE tok.t = "regexp"      -> Leaf("REGEXP", "str", tok.v, "x")
    [] tok.t \in {"wild","star"} -> Leaf("WILD", "str", tok.v, "x")
    [] tok.t \in IntKinds    -> Leaf("LIT", "int", tok.v, Sign(tok.t))
    [] tok.t \in FloatKinds  -> Leaf("LIT", "float", tok.v, Sign(tok.t))
    [] OTHER                 -> Leaf("LIT", "str", tok.v, "x")        \* word, quoted

\* expression.go:515 isStringlike on an *Expression: its Left is a Go string
StringLike(e) == IsLeaf(e) /\ e.ty = "str"
\* expression.go:541 wrapInColumn, applied by Expr when operatesOnColumn(op)
Col(e) == IF StringLike(e) THEN ColLeaf(e.v) ELSE e

MkUn(op, l)        == [op |-> op, l |-> l]
MkSuf(op, l, p)    == [op |-> op, l |-> l, p |-> p]
MkBin(op, l, r)    == [op |-> op, l |-> l, r |-> r]
\* expression.go:225 - Equals with a Wild/Regexp on the right becomes Like
MkEq(l, r)         == [op |-> IF r.op \in {"WILD","REGEXP"} THEN "LIKE" ELSE "EQUALS", l |-> Col(l), r |-> r]
MkCmp(op, l, r)    == [op |-> op, l |-> Col(l), r |-> r]
MkIn(l, items)     == [op |-> "IN", l |-> Col(l), items |-> items]
MkRange(l, lo, hi, inc) == [op |-> "RANGE", l |-> Col(l), lo |-> lo, hi |-> hi, inc |-> inc]

\* validator.go - Validate recurses through Left and Right when they are *Expression; range bounds and
\* list items are checked by their operator's validator only
RECURSIVE Valid(_)
Valid(e) ==
  CASE IsLeaf(e)                       -> TRUE
    [] e.op \in {"EQUALS"} \cup CmpOps -> IsLeaf(e.l) /\ Valid(e.r)
    [] e.op = "LIKE"                   -> IsLeaf(e.l) /\ e.r.op \in {"WILD","REGEXP"}
    [] e.op = "IN"                     -> IsLeaf(e.l) /\ \A i \in DOMAIN e.items : IsLeaf(e.items[i])
    [] e.op = "RANGE"                  -> IsLeaf(e.l) /\ IsLeaf(e.lo) /\ IsLeaf(e.hi)
    [] e.op \in {"AND","OR"}           -> Valid(e.l) /\ Valid(e.r)
    [] e.op \in UnOps \cup SufOps      -> Valid(e.l)
    [] OTHER                           -> FALSE

\* number of nodes, used for bounds and measures
RECURSIVE Size(_)
Size(e) ==
  CASE IsLeaf(e)                  -> 1
    [] e.op \in BinOps            -> 1 + Size(e.l) + Size(e.r)
    [] e.op \in UnOps \cup SufOps -> 1 + Size(e.l)
    [] e.op = "RANGE"             -> 1 + Size(e.l) + Size(e.lo) + Size(e.hi)
    [] e.op = "IN"                -> 1 + Size(e.l) + Len(e.items)
    [] OTHER                      -> 1
=======================================================================
