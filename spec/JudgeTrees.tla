-------------------------- MODULE JudgeTrees --------------------------
(* Verdicts for the tree-driven properties on what the REAL parser returned (harness parse-groups). *)
(* Each input line is one generated tree: cases[1] is the minimally parenthesised explicit print,   *)
(* the others are its variants.  res = Parse(text), resdf = Parse(text, WithDefaultField(df)).      *)
(* Every clause is a REF statement (Grammar.tla, GenTrees' expected tree) about real results only.  *)
EXTENDS Integers, Sequences, FiniteSets, TLC, Json
G == INSTANCE Grammar
KF == INSTANCE KnownFindings
Q == INSTANCE Sql
Sem == INSTANCE Semantics
RT == INSTANCE RoundTrip
EJ == INSTANCE ExprJson
RM == INSTANCE Render
PR == INSTANCE Printers

CONSTANTS ResFile, VerdictFile, Prop, Shards
Groups == ndJsonDeserialize(ResFile)

Ok(r) == r.outcome = "ok"
FailK(prop, c, clause, kf) == [prop |-> prop, id |-> c.id, kind |-> c.kind, q |-> c.res.q, clause |-> clause, kf |-> kf]
Fail(prop, c, clause) == FailK(prop, c, clause, "none")

\* C05: the text printed from the tree by the documented table parses back to that tree
\* (the spacing variants are part of C05's quantifier: a tight print such as +5 must still be MUST(5))
C05(g) == LET chk(c) == IF c.kind \notin {"min","paren","ws"} THEN <<>>
                        ELSE IF ~Ok(c.res) THEN <<Fail("C05", c, "rejected")>>
                        ELSE IF c.res.tree # c.expect THEN <<Fail("C05", c, "different tree")>>
                        ELSE <<>>
          IN [i \in DOMAIN g.cases |-> chk(g.cases[i])]

\* C07: juxtaposition parses to the tree of the explicit AND; in a gap between two terms it is accepted
C07(g) == LET base == g.cases[1].res
              chk(c) == IF c.kind # "juxt" THEN <<>>
                        ELSE IF Ok(c.res) /\ (~Ok(base) \/ c.res.tree # base.tree) THEN <<Fail("C07", c, "juxtaposition differs from explicit AND")>>
                        ELSE IF Ok(base) /\ ~Ok(c.res) THEN <<Fail("C07", c, "juxtaposition between two terms rejected")>>
                        ELSE <<>>
          IN [i \in DOMAIN g.cases |-> chk(g.cases[i])]

\* C09: whitespace, keyword case and redundant parentheses do not change the outcome
C09(g) == LET one(c, base, r, tag) ==
                   IF Ok(base) /\ ~Ok(r) THEN <<Fail("C09", c, "variant rejected" \o tag)>>
                   ELSE IF Ok(base) /\ r.tree # base.tree THEN <<Fail("C09", c, "variant parses differently" \o tag)>>
                   ELSE IF c.kind = "ws" /\ ~Ok(base) /\ Ok(r) THEN <<Fail("C09", c, "variant accepted, original rejected" \o tag)>>
                   ELSE <<>>
              chk(c) == IF c.kind \notin {"paren","ws"} THEN <<>>
                        ELSE one(c, g.cases[1].res, c.res, "") \o one(c, g.cases[1].resdf, c.resdf, " (default field)")
          IN [i \in DOMAIN g.cases |-> chk(g.cases[i])]

\* C10: all-or-nothing results, Validate and the independent shape check
Shape(r) == IF Ok(r) THEN ~r.e_nil /\ r.err_nil /\ r.validate_ok /\ G!WellFormed(r.tree)
            ELSE r.outcome = "err" /\ r.e_nil /\ ~r.err_nil
HasObs10(r) == "obs" \in DOMAIN r
SqlShape(r) == ~HasObs10(r) \/
               /\ (r.obs.sql.out = "ok" => ~r.obs.sql.empty) /\ (r.obs.sql.out = "err" => r.obs.sql.empty)
               /\ (r.obs.sqlp.out = "err" => r.obs.sqlp.empty)
               /\ (r.obs.sql2.out = "ok" => ~r.obs.sql2.empty) /\ (r.obs.sql2.out = "err" => r.obs.sql2.empty)
               /\ (r.obs.sqlp2.out = "err" => r.obs.sqlp2.empty)
               /\ r.obs.sql2.out = r.obs.sql.out /\ r.obs.sqlp2.out = r.obs.sqlp.out
               /\ (~Ok(r) => r.obs.sql.out = "err" /\ r.obs.sqlp.out = "err")
C10(g) == LET chk(c) == (IF Shape(c.res) THEN <<>> ELSE <<Fail("C10", c, "result shape")>>)
                        \o (IF Shape(c.resdf) THEN <<>> ELSE <<Fail("C10", c, "result shape (default field)")>>)
                        \o (IF SqlShape(c.res) /\ SqlShape(c.resdf) THEN <<>>
                            ELSE <<Fail("C10", c, "renderer result shape (text with an error, empty text without one, or a repeated call answers differently)")>>)
          IN [i \in DOMAIN g.cases |-> chk(g.cases[i])]

\* C11: a default field scopes bare terms and changes nothing else
C11(g) == LET chk(c) ==
                IF Ok(c.res) # Ok(c.resdf) THEN <<Fail("C11", c, "accepted with but not without (or vice versa)")>>
                ELSE IF ~Ok(c.res) THEN <<>>
                ELSE (IF G!EraseDefault(c.resdf.tree, c.df) = c.res.tree THEN <<>>
                      ELSE <<FailK("C11", c, "erasing the default field gives another tree",
                                   IF KF!KF_C11_ListForm(c.resdf.tree, c.res.tree, c.df) THEN "C11-list-form" ELSE "none")>>)
                     \o (IF G!NoBareTerm(c.resdf.tree) THEN <<>> ELSE <<Fail("C11", c, "bare term remains")>>)
          IN [i \in DOMAIN g.cases |-> chk(g.cases[i])]

\* C06 on the generated texts (long valid queries and their near misses), with the real lexer's tokens
C06(g) == LET chk(c) == IF c.kind = "ws" THEN <<>> ELSE
                (IF Ok(c.res) /\ ~G!Derives(c.res.tree, c.toks) THEN <<Fail("C06", c, "tree is not a derivation of the tokens")>> ELSE <<>>)
                \o (IF Ok(c.resdf) /\ ~G!Derives(G!EraseDefault(c.resdf.tree, c.df), c.toks)
                    THEN <<Fail("C06", c, "tree (default field) is not a derivation of the tokens")>> ELSE <<>>)
          IN [i \in DOMAIN g.cases |-> chk(g.cases[i])]

\* C01 on the generated texts: normal return of every observable, no %! marker, linear parser work
HasObs(r) == "obs" \in DOMAIN r
CallsOk(r) == ~HasObs(r) \/ \A k \in DOMAIN r.obs : r.obs[k].out \in {"ok","err"} /\ ~r.obs[k].marker
Work(r) == r.nsteps <= 3 * r.ntoks + 3 /\ r.attempts <= 16 * (r.ntoks + 1)
C01(g) == LET one(c, r, tag) ==
                (IF r.outcome \in {"ok","err"} THEN <<>> ELSE <<Fail("C01", c, "Parse " \o r.outcome \o tag)>>)
                \o (IF CallsOk(r) THEN <<>> ELSE <<Fail("C01", c, "printer, encoder or renderer panicked or printed a %! marker" \o tag)>>)
                \o (IF Work(r) THEN <<>> ELSE <<Fail("C01", c, "parser work not linear in the tokens" \o tag)>>)
          IN [i \in DOMAIN g.cases |-> one(g.cases[i], g.cases[i].res, "") \o one(g.cases[i], g.cases[i].resdf, " (default field)")]

\* C03, structure level: the SQL of a compound query is the same Boolean combination of its leaves as the
\* query's own structure (PostgreSQL's precedence decides how the text is read); rows = one probe per leaf column
C03(g) == LET chk(c) ==
                IF c.kind \notin {"min","paren","juxt"} \/ ~Sem!Filterable(c.expect) THEN <<>>
                ELSE IF c.sql.inline.out # "ok" THEN <<Fail("C03", c, "ToPostgres failed on a filterable query")>>
                ELSE IF ~(c.sql.inline.read.pg_ok /\ c.sql.inline.read.frame_ok) THEN <<Fail("C03", c, "PostgreSQL does not read the text as one WHERE expression")>>
                ELSE IF \A row \in Sem!Rows(c.expect) : Q!TWellTyped(c.sql.inline.read.ast, row)
                                                        /\ Q!TEval(c.sql.inline.read.ast, row) = Sem!EvalTree(c.expect, row) THEN <<>>
                ELSE <<Fail("C03", c, "inline SQL is not the Boolean combination the query means")>>
          IN [i \in DOMAIN g.cases |-> chk(g.cases[i])]
\* C04, structure level: same success, placeholders = parameters in order, substitution gives the inline predicate
C04(g) == LET chk(c) ==
                IF c.kind \notin {"min","paren","juxt"} \/ c.sql.inline.out # "ok" THEN <<>>
                ELSE IF c.sql.param.out # "ok" THEN <<Fail("C04", c, "ToPostgres succeeds but ToParameterizedPostgres does not")>>
                ELSE IF ~(c.sql.param.read.pg_ok /\ c.sql.param.read.nplace = Len(c.sql.param.params)
                          /\ Q!ParamsOf(c.sql.param.read.ast) = [i \in 1..Len(c.sql.param.params) |-> i])
                     THEN <<Fail("C04", c, "placeholders and parameters do not correspond one to one")>>
                ELSE IF Q!SameAst(Q!NormBetween(Q!Subst(c.sql.param.read.ast, c.sql.param.params)), Q!NormBetween(c.sql.inline.read.ast)) THEN <<>>
                ELSE <<Fail("C04", c, "substituting the parameters does not give the inline predicate")>>
          IN [i \in DOMAIN g.cases |-> chk(g.cases[i])]

\* C12: JSON round trip of every returned expression
C12(g) == LET one(c, key, r, tag) == IF key \notin DOMAIN c THEN <<>>
                                     ELSE IF RT!RtVerdict(c[key], r.tree) = "" THEN <<>>
                                     ELSE <<FailK("C12", c, RT!RtVerdict(c[key], r.tree) \o tag,
                                                  IF c[key].dec = "ok" /\ KF!KF_C12_NegativeZero(r.tree) THEN "C12-negative-zero"
                                                  ELSE IF c[key].dec = "ok" /\ KF!KF_C12_BigIntBound(r.tree) THEN "C12-big-int-range-bound" ELSE "none")>>
          IN [i \in DOMAIN g.cases |-> one(g.cases[i], "rt", g.cases[i].res, "") \o one(g.cases[i], "rtdf", g.cases[i].resdf, " (default field)")]

CodecConf(c, key, r) == key \notin DOMAIN c \/ c[key].dec # "ok" \/ c[key].tree2 = EJ!RoundTripped(r.tree, c[key].leaves)
CodecDrift(g) == IF Prop # "C12" THEN 0
                 ELSE Cardinality({i \in DOMAIN g.cases : ~(CodecConf(g.cases[i], "rt", g.cases[i].res) /\ CodecConf(g.cases[i], "rtdf", g.cases[i].resdf))})

\* conformance of the driver model (Render.tla) with the real driver: predicted text and parameters = observed ones
ParamsSame(mp, ps) == Len(mp) = Len(ps) /\ \A i \in DOMAIN ps : mp[i].ty = ps[i].ty /\ mp[i].v = ps[i].text
RenderSame(m, r) == ~m.known \/ (m.ok = (r.out = "ok") /\ (m.ok => m.s = r.text /\ ParamsSame(m.params, r.params)))
RenderConf(c) == "sql" \notin DOMAIN c \/ ~Ok(c.res)
                 \/ (RenderSame(RM!Inline(c.res.tree), c.sql.inline) /\ RenderSame(RM!Param(c.res.tree), c.sql.param))
RenderKnown(c) == "sql" \in DOMAIN c /\ Ok(c.res) /\ RM!Inline(c.res.tree).known
RenderDrift(g) == IF Prop \notin {"C03","C04"} THEN 0
                  ELSE LET bad == {i \in DOMAIN g.cases : ~RenderConf(g.cases[i])} IN
                       IF bad = {} THEN 0
                       ELSE IF PrintT("RENDER-DRIFT " \o ToJson([q |-> g.cases[CHOOSE i \in bad : TRUE].res.q,
                                                                 model |-> RM!Inline(g.cases[CHOOSE i \in bad : TRUE].res.tree).s,
                                                                 model_param |-> RM!Param(g.cases[CHOOSE i \in bad : TRUE].res.tree).s,
                                                                 code |-> g.cases[CHOOSE i \in bad : TRUE].sql.inline.text,
                                                                 code_param |-> g.cases[CHOOSE i \in bad : TRUE].sql.param.text]))
                            THEN Cardinality(bad) ELSE 0
RenderPredicted(g) == IF Prop \notin {"C03","C04"} THEN 0 ELSE Cardinality({i \in DOMAIN g.cases : RenderKnown(g.cases[i])})

\* conformance of the printer model (Printers.tla): predicted texts of String() / GoString() = observed texts
PrintSame(tree, p) == ~PR!Known(tree) \/ (PR!Str(tree) = p.str /\ PR!Go(tree) = p.gostr)
\* (variants of one tree print alike: the minimal print and the near misses are compared)
PrintConf(c) == c.kind \notin {"min","mut"} \/ (("print" \notin DOMAIN c \/ PrintSame(c.res.tree, c.print)) /\ ("printdf" \notin DOMAIN c \/ PrintSame(c.resdf.tree, c.printdf)))
PrintDrift(g) == LET bad == {i \in DOMAIN g.cases : ~PrintConf(g.cases[i])} IN
                 IF bad = {} THEN 0
                 ELSE LET c == g.cases[CHOOSE i \in bad : TRUE] IN
                      IF PrintT("PRINT-DRIFT " \o ToJson([q |-> c.res.q, model_str |-> PR!Str(c.res.tree), code_str |-> c.print.str,
                                                          model_gostr |-> PR!Go(c.res.tree), code_gostr |-> c.print.gostr]))
                      THEN Cardinality(bad) ELSE 0
PrintPredicted(g) == 2 * Cardinality({i \in DOMAIN g.cases : g.cases[i].kind \in {"min","mut"} /\ "print" \in DOMAIN g.cases[i] /\ PR!Known(g.cases[i].res.tree)})

Judge(g) == CASE Prop = "C12" -> C12(g) [] Prop = "C03" -> C03(g) [] Prop = "C04" -> C04(g) [] Prop = "C05" -> C05(g) [] Prop = "C07" -> C07(g) [] Prop = "C09" -> C09(g)
              [] Prop = "C10" -> C10(g) [] Prop = "C11" -> C11(g) [] Prop = "C06" -> C06(g) [] Prop = "C01" -> C01(g)

RECURSIVE Cat(_, _)
Cat(ss, i) == IF i > Len(ss) THEN <<>> ELSE ss[i] \o Cat(ss, i + 1)
\* failures per group (a group has at most ~20 cases, so the recursion is shallow)
GroupFails(g) == LET per == Judge(g) IN Cat(per, 1)
Relevant(c) == CASE Prop = "C05" -> c.kind \in {"min","paren","ws"} [] Prop = "C07" -> c.kind = "juxt"
                 [] Prop = "C09" -> c.kind \in {"paren","ws"} [] Prop = "C06" -> c.kind # "ws"
                 [] Prop \in {"C03","C04"} -> c.kind \in {"min","paren","juxt"} [] OTHER -> TRUE

\* one TLC state per group, so the state count is the number of trees judged
\* the file is judged in Shards independent behaviours (shard sh takes lines sh+1, sh+1+Shards, ...), which
\* TLC explores in parallel with -workers
VARIABLES sh, n, last, fails, kfs, judged, nfail, nkf, ndrift, nrdrift, npred, npdrift, nppred
jvars == <<sh, n, last, fails, kfs, judged, nfail, nkf, ndrift, nrdrift, npred, npdrift, nppred>>
Open(f)  == SelectSeq(f, LAMBDA v : v.kf = "none")
Known(f) == SelectSeq(f, LAMBDA v : v.kf # "none")
Init == sh \in 0..(Shards - 1) /\ n = sh /\ last = <<>> /\ fails = <<>> /\ kfs = <<>> /\ judged = 0 /\ nfail = 0 /\ nkf = 0 /\ ndrift = 0 /\ nrdrift = 0 /\ npred = 0 /\ npdrift = 0 /\ nppred = 0
\* each step judges one line into `last` (evaluated exactly once) and files the previous line's verdicts
Next == /\ n < Len(Groups) + Shards /\ n' = n + Shards /\ UNCHANGED sh
        /\ last' = IF n < Len(Groups) THEN GroupFails(Groups[n + 1]) ELSE <<>>
        /\ fails' = IF Len(fails) >= 100 THEN fails ELSE fails \o Open(last)
        /\ kfs' = IF Len(kfs) >= 100 THEN kfs ELSE kfs \o Known(last)
        /\ nfail' = nfail + Len(Open(last)) /\ nkf' = nkf + Len(Known(last))
        /\ judged' = judged + (IF n < Len(Groups) THEN Cardinality({i \in DOMAIN Groups[n + 1].cases : Relevant(Groups[n + 1].cases[i])}) ELSE 0)
        /\ ndrift' = ndrift + (IF n < Len(Groups) THEN CodecDrift(Groups[n + 1]) ELSE 0)
        /\ nrdrift' = nrdrift + (IF n < Len(Groups) THEN RenderDrift(Groups[n + 1]) ELSE 0)
        /\ npred' = npred + (IF n < Len(Groups) THEN RenderPredicted(Groups[n + 1]) ELSE 0)
        /\ npdrift' = npdrift + (IF n < Len(Groups) THEN PrintDrift(Groups[n + 1]) ELSE 0)
        /\ nppred' = nppred + (IF n < Len(Groups) THEN PrintPredicted(Groups[n + 1]) ELSE 0)
Spec == Init /\ [][Next]_jvars
Report == n >= Len(Groups) + Shards =>
            /\ PrintT("JUDGED " \o ToJson([prop |-> Prop, shard |-> sh, judged |-> judged, failures |-> nfail, known |-> nkf, drift |-> ndrift,
                                                render_drift |-> nrdrift, render_predicted |-> npred,
                                                print_drift |-> npdrift, print_predicted |-> nppred]))
            /\ ndJsonSerialize(VerdictFile \o "." \o ToString(sh), fails \o kfs)
=======================================================================
