--------------------------- MODULE MC_Lexer ---------------------------
(* Exhaustive exploration of the Lexer MECH: every input up to MaxLen over Alphabet, every schedule *)
(* of up to MaxCalls Next / Peek calls, with the REF clauses of C16 (Segmentation.tla) as invariants. *)
EXTENDS Lexer
S == INSTANCE Segmentation

Ended == LET ts == S!Nexts(out) IN S!FirstEnd(ts, 1) > 0
\* once the stream has ended the clauses must hold for the calls made so far
LosslessInv   == Ended => S!Lossless(inp0, out)
EofForeverInv == LET ts == S!Nexts(out)  n == S!FirstEnd(ts, 1) IN
                 n > 0 => \A i \in (n + 1)..Len(ts) : ts[i].typ = "EOF"
PeekIsNextInv == S!PeekIsNext(out)
PeekPureInv   == S!PeekPure(out)
\* the Next-only projection does not depend on where the Peeks were: it equals the Next-only run
RECURSIVE Run(_,_)
Run(L, k) == IF k = 0 THEN <<>> ELSE <<DoNext(L).cur>> \o Run(DoNext(L), k - 1)
ScheduleFree  == LET ts == S!Nexts(out)  ref == Run(NewLexer(inp0), Len(ts)) IN
                 \A i \in DOMAIN ts : ts[i].typ = ref[i].typ /\ (ts[i].typ \in {"EOF","ERR"} \/ (ts[i].s = ref[i].s /\ ts[i].e = ref[i].e))
=======================================================================
