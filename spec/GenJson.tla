---------------------------- MODULE GenJson ----------------------------
(* Generator for C13: well-formed JSON documents over the expression schema with arbitrary operator names, *)
(* missing / extra / null / wrongly typed members, empty strings, nested arrays and objects.  Documents are  *)
(* written as JSON text (ASCII), one per output line; the harness adds byte-level truncations and mutations. *)
EXTENDS Integers, Sequences, FiniteSets, TLC, Json, SequencesExt

CONSTANTS OutFile, Tier

Q(s) == "\"" \o s \o "\""
\* member values: every JSON kind, the shapes the decoder special-cases, and look-alikes
Vals == << "null", Q(""), Q("a"), Q("a*"), Q("?"), Q("/r/"), Q("/"), Q("*"), "5", "5.5", "-1", "0", "1e999", "true", "false",
           "[]", "[" \o Q("a") \o "]", "[1," \o Q("b") \o "]", "[[1]]", "[{}]", "[null]", "[" \o Q("") \o "]", "{}",
           "{" \o Q("min") \o ":1," \o Q("max") \o ":2}",
           "{" \o Q("min") \o ":1," \o Q("max") \o ":2," \o Q("inclusive") \o ":true}",
           "{" \o Q("min") \o ":1}",
           "{" \o Q("min") \o ":null," \o Q("max") \o ":null}",
           "{" \o Q("min") \o ":" \o Q("") \o "," \o Q("max") \o ":" \o Q("*") \o "}",
           "{" \o Q("min") \o ":[1]," \o Q("max") \o ":{}}",
           "{" \o Q("min") \o ":{" \o Q("left") \o ":" \o Q("a") \o "}," \o Q("max") \o ":2}",
           "{" \o Q("min") \o ":1.5," \o Q("max") \o ":" \o Q("b") \o "," \o Q("inclusive") \o ":" \o Q("yes") \o "}",
           "{" \o Q("left") \o ":" \o Q("a") \o "," \o Q("operator") \o ":" \o Q("EQUALS") \o "," \o Q("right") \o ":" \o Q("b") \o "}",
           "{" \o Q("left") \o ":" \o Q("a") \o "," \o Q("operator") \o ":" \o Q("LITERAL") \o "}",
           "{" \o Q("left") \o ":[" \o Q("a") \o "," \o Q("b") \o "]," \o Q("operator") \o ":" \o Q("LIST") \o "}",
           "{" \o Q("left") \o ":5," \o Q("operator") \o ":" \o Q("NOT") \o "}",
           "{" \o Q("left") \o ":[" \o Q("a*") \o "," \o Q("b") \o "]," \o Q("operator") \o ":" \o Q("LIST") \o "}",
           "{" \o Q("left") \o ":[" \o Q("b") \o "," \o Q("/r/") \o ",7]," \o Q("operator") \o ":" \o Q("LIST") \o "}",
           "[{" \o Q("left") \o ":" \o Q("a") \o "," \o Q("operator") \o ":" \o Q("RANGE") \o "}]",
           "[{" \o Q("left") \o ":" \o Q("a") \o "," \o Q("operator") \o ":" \o Q("LIKE") \o "," \o Q("right") \o ":5}," \o Q("b") \o "]",
           "[" \o Q("a*") \o "," \o Q("/r/") \o ",{" \o Q("left") \o ":1," \o Q("operator") \o ":" \o Q("IN") \o "," \o Q("right") \o ":2}]",
           Q("x\\\"min\\\":\\\"max\\\":"),
           \* strings a careless slice, index or format verb trips over: one quote, two quotes, backslashes at the end / before a
           \* wildcard, a percent sign, schema words, a slash, number look-alikes
           Q("\\\""), Q("\\\"\\\""), Q("\\\\"), Q("foo*\\\\"), Q("a\\\\*b"), Q("/r\\\\/"), Q("%"), Q("a%sb"), Q("left"), Q("min"), Q("'"), Q("010"), Q("1e3"), Q(" "), Q("a b"),
           Q("aaaaaaaaaaaaaaaaaaaaaaaaaaaaaaaaaaaaaaaaaaaaaaaaaaaaaaaaaaaaaaa"),       \* 63 bytes: PostgreSQL's longest identifier
           Q("aaaaaaaaaaaaaaaaaaaaaaaaaaaaaaaaaaaaaaaaaaaaaaaaaaaaaaaaaaaaaaaa") >>
Ops == << "AND", "OR", "EQUALS", "LIKE", "NOT", "RANGE", "MUST", "MUST_NOT", "BOOST", "FUZZY", "LITERAL", "WILD", "REGEXP",
          "GREATER", "LESS", "GREATER_EQ", "LESS_EQ", "IN", "LIST", "BOGUS", "", "and" >>
Extras == << "", "," \o Q("distance") \o ":2", "," \o Q("distance") \o ":" \o Q("x"), "," \o Q("distance") \o ":null",
             "," \o Q("power") \o ":2.5", "," \o Q("power") \o ":-1", "," \o Q("power") \o ":[]",
             "," \o Q("boundaries") \o ":{" \o Q("min") \o ":1," \o Q("max") \o ":2}", "," \o Q("extra") \o ":{" \o Q("a") \o ":1}" >>

Obj(l, op, r, x) == "{" \o Q("left") \o ":" \o l \o "," \o Q("operator") \o ":" \o Q(op)
                    \o (IF r = "" THEN "" ELSE "," \o Q("right") \o ":" \o r) \o x \o "}"
NoLeft(op, r)    == "{" \o Q("operator") \o ":" \o Q(op) \o "," \o Q("right") \o ":" \o r \o "}"
NoOp(l, r)       == "{" \o Q("left") \o ":" \o l \o "," \o Q("right") \o ":" \o r \o "}"

IdxV == DOMAIN Vals
Pick(S, k) == IF Tier = "quick" THEN {i \in S : i % k = 0 \/ i <= 6} ELSE S
Thin(S, k) == {i \in S : i % k = 0 \/ i <= 6}
Level1 == {Obj(Vals[l], Ops[o], Vals[r], "") : l \in IdxV, o \in DOMAIN Ops, r \in Thin(IdxV, IF Tier = "quick" THEN 3 ELSE 2)}
          \cup {Obj(Vals[l], Ops[o], "", "") : l \in IdxV, o \in DOMAIN Ops}
          \* (with the extra members the product is thinned in both tiers: 51 x 22 x 51 x 9 documents take TLC more than half an hour)
          \cup {Obj(Vals[l], Ops[o], Vals[r], Extras[x]) : l \in Thin(IdxV, IF Tier = "quick" THEN 7 ELSE 3), o \in DOMAIN Ops,
                                                          r \in Thin(IdxV, IF Tier = "quick" THEN 9 ELSE 4), x \in DOMAIN Extras}
          \cup {NoLeft(Ops[o], Vals[r]) : o \in DOMAIN Ops, r \in IdxV}
          \cup {NoOp(Vals[l], Vals[r]) : l \in IdxV, r \in Pick(IdxV, 5)}
          \cup {Vals[v] : v \in IdxV}
\* one more level: a level-1 document as the left or right member
Sample1 == LET s == SetToSeq(Level1) IN {s[RandomElement(1..Len(s))] : i \in 1..(IF Tier = "quick" THEN 300 ELSE 1500)}
Level2 == {Obj(d, Ops[o], Vals[r], "") : d \in Sample1, o \in {1, 3, 5, 6, 9, 10, 18}, r \in {1, 3, 9, 24}}
          \cup {Obj(Vals[l], Ops[o], d, "") : d \in Sample1, o \in {1, 3, 4, 6, 18}, l \in {1, 3, 9, 17}}
Docs == LET s == SetToSeq(Level1 \cup Level2) IN [i \in DOMAIN s |-> [id |-> i, doc |-> s[i]]]

VARIABLE x
Init == x = 0
Next == FALSE /\ x' = x
Spec == Init /\ [][Next]_x
Post == /\ TLCGet("stats").diameter >= 0
        /\ ndJsonSerialize(OutFile, Docs)
        /\ PrintT("GENERATED " \o ToJson([docs |-> Len(Docs), level1 |-> Cardinality(Level1)]))
=======================================================================
