--------------------------- MODULE RoundTrip ---------------------------
(* REF for C12: what the JSON round trip of an expression Parse returned must satisfy.  rt is the record   *)
(* written by harness roundTrip(): outcomes of encode / decode, the byte / text equalities computed on the  *)
(* real values, the dump of the decoded tree, and for every leaf the textual facts that decide which kind   *)
(* the decoder infers (property text: a quoted string containing * or ?, a /slash-delimited/ string, an     *)
(* integer-valued float).                                                                                   *)
EXTENDS Integers, Sequences

\* each leaf has the kind the decoder infers from its text
InferableLeaf(p) ==
  CASE p.op = "LIT" /\ p.ty = "str"   -> ~p.has_wild /\ ~p.slashed
    [] p.op = "LIT" /\ p.ty = "float" -> ~p.intvalued
    [] p.op = "WILD"                  -> p.has_wild /\ ~p.slashed
    [] p.op = "REGEXP"                -> p.slashed
    [] OTHER                          -> TRUE
Inferable(rt) == \A i \in DOMAIN rt.leaves : InferableLeaf(rt.leaves[i])

\* the clauses, in the order of the property text; "" when all hold
RtVerdict(rt, tree) ==
  IF rt.enc # "ok" THEN "JSON encoding failed"
  ELSE IF rt.dec # "ok" THEN "decoding the encoded bytes failed (" \o rt.dec \o ")"
  ELSE IF ~rt.reuse_same THEN "decoding the same bytes into an expression value that was used before gives another expression"
  ELSE IF ~rt.validate2 THEN "the decoded expression does not validate"
  ELSE IF ~rt.reenc_same THEN "re-encoding gives other bytes"
  ELSE IF ~rt.str_same THEN "the decoded expression prints differently"
  ELSE IF ~(rt.sql_same /\ rt.sqlp_same) THEN "the decoded expression renders other SQL"
  ELSE IF Inferable(rt) /\ ~(rt.deep_equal /\ rt.tree2 = tree) THEN "the decoded expression is not deep-equal although every leaf kind is inferable"
  ELSE ""
=========================================================================
