--------------------------- MODULE TraceConc ---------------------------
(* Trace validation for C14: the events recorded from real goroutines (begin / end of every call, each with  *)
(* the goroutine, the call id, at end the result digest and the digest of the shared state) must be a         *)
(* behaviour of Concurrent.tla with SeqResult taken from the sequential baseline recorded first.              *)
(* Lines: {"ev":"seqmap","m":{c:h,...}} {"ev":"shared0","res":h} then {"ev":"begin"|"end","g":g,"call":c,"res":h,"shared":h} *)
(* plus at most one {"ev":"race","n":k} line written by the driver from the race detector's report.           *)
EXTENDS Integers, Sequences, FiniteSets, TLC, Json

CONSTANTS TraceFile
Trace == ndJsonDeserialize(TraceFile)
\* line 1 = {"ev":"seqmap","m":{call: result, ...}} (a record, i.e. a function from call ids), line 2 = shared0
SeqMap   == Trace[1].m
Events   == SubSeq(Trace, 3, Len(Trace))
S0       == 2
TCalls   == DOMAIN SeqMap
TG       == {Events[i].g : i \in {j \in DOMAIN Events : Events[j].ev # "race"}}

VARIABLES pc, cur, shared, done, ndone, l
C == INSTANCE Concurrent WITH G <- TG, Calls <- TCalls, SeqResult <- SeqMap,
                              Shared0 <- Trace[S0].res, Broken <- FALSE

TraceInit == C!Init /\ l = 1
\* one logged event = one action of the specification with the logged arguments and results
TraceNext ==
  /\ l <= Len(Events) /\ l' = l + 1
  /\ LET e == Events[l] IN
     CASE e.ev = "begin" -> C!Begin(e.g, e.call)
       [] e.ev = "end"   -> /\ cur[e.g] = e.call /\ C!End(e.g)
                            /\ done'[e.g] = [call |-> e.call, res |-> e.res]   \* the logged result is the sequential one
                            /\ (e.shared = "skip" \/ e.shared = shared')     \* the logged shared-state digest is unchanged
       [] OTHER          -> FALSE                                          \* a race report is no action of the specification
TraceSpec == TraceInit /\ [][TraceNext]_<<pc, cur, shared, done, ndone, l>>
\* the whole trace was consumed (deadlock checking is off; TLC stops where no action matches)
Accepted == l = Len(Events) + 1
Report == (l = Len(Events) + 1) => PrintT("TRACE-ACCEPTED " \o ToString(Len(Events)))
Inv == C!Deterministic /\ C!SharedUnchanged
========================================================================
