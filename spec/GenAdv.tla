---------------------------- MODULE GenAdv ----------------------------
(* Generator + REF for C02: queries whose field names and values come from an adversarial pool (quotes,  *)
(* backslashes, statement separators, comment openers, NUL, invalid UTF-8, NaN/Inf, over-long names ...).  *)
(* Texts travel as byte codes.  For each case the generator states which field names (fields) and which  *)
(* values (vals) occur in the query; C02 demands that every column reference / string constant of the SQL *)
(* is one of them (wildcards translated).                                                                 *)
EXTENDS Integers, Sequences, FiniteSets, TLC, Json, SequencesExt

CONSTANTS OutFile, Tier

\* ---- byte-code helpers ---------------------------------------------------------------------------------
Plain(c) == c \in 48..57 \/ c \in 65..90 \/ c \in 97..122 \/ c = 95 \/ c >= 128
RECURSIVE Esc(_)
Esc(w) == IF w = <<>> THEN <<>> ELSE (IF Plain(Head(w)) THEN <<Head(w)>> ELSE <<92, Head(w)>>) \o Esc(Tail(w))   \* backslash before every special
Quote(w) == <<34>> \o w \o <<34>>
HasDQ(w) == \E i \in DOMAIN w : w[i] = 34
RECURSIVE Rep(_,_)
Rep(c, n) == IF n = 0 THEN <<>> ELSE <<c>> \o Rep(c, n - 1)

\* ---- the adversarial pool (value bytes) -----------------------------------------------------------------
Adv == <<
  <<39>>,                                   \* '
  <<97,39,98>>,                             \* a'b
  <<39,59,45,45>>,                          \* ';--
  <<39,32,79,82,32,39,49,39,61,39,49>>,     \* ' OR '1'='1
  <<92>>,                                   \* \
  <<97,92,39,98>>,                          \* a\'b
  <<92,39>>,                                \* \'
  <<45,45>>,                                \* --
  <<47,42>>,                                \* /*
  <<42,47>>,                                \* */
  <<59>>,                                   \* ;
  <<41,59,68,82,79,80>>,                    \* );DROP
  <<34>>,                                   \* "
  <<97,34,98>>,                             \* a"b
  <<0>>,                                    \* NUL
  <<97,0,98>>,                              \* a NUL b
  <<255>>,                                  \* invalid UTF-8
  <<97,255,98>>,
  <<37>>, <<95>>, <<37,95>>,                \* % _ %_
  <<10>>,                                   \* newline
  <<36,49>>,                                \* $1
  <<63>>,                                   \* ?
  <<195,169>>,                              \* e-acute
  <<69,39,120,39>>,                         \* E'x'
  <<110,117,108,108>>,                      \* null
  <<36,36>>,                                \* $$
  <<39,39>>,                                \* ''
  <<92,92>>,                                \* two backslashes
  <<85,38,39,120,39>>,                      \* U&'x'
  <<44>>,                                   \* ,
  <<120,44,121>>,                           \* x,y
  <<44,32,39>>,                             \* , '
  <<42>>,                                   \* * written quoted / escaped: a value, not the unbounded marker
  <<63>>,                                   \* ?  (escaped / quoted)
  <<32>>,                                   \* a single space
  <<91,49,93>>,                             \* [1]
  <<239,191,189>>,                          \* U+FFFD, validly encoded
  <<120,239,191,189,121>>,
  <<127>>,                                  \* DEL
  <<9>>,                                    \* TAB
  <<34,34>>,                                \* two double quotes
  <<97,34,120,34,121>>,                     \* a"x"y
  <<97,34,120,34,32,79,82,32,34,121>>,      \* a"x" OR "y   (three quotes: the middle part would become SQL)
  <<39,120,39,32,79,82,32,39,121>>          \* 'x' OR 'y    (three single quotes)
>>
\* texts that Go's ParseFloat accepts or nearly accepts, typed bare
NumLike == << <<49>>, <<50,46,53>>, <<78,97,78>>, <<73,110,102>>, <<105,110,102,105,110,105,116,121>>, <<110,97,110>>, <<49,101,57,57,57>>,
              <<48,120,49,48>>, <<49,95,48>>, <<45,49,101,57,57,57>>, <<49,101,51,48,56>>, <<46,53>>, <<53,46>>,
              <<48,120,49,112,45,50>>, <<57,57,57,57,57,57,57,57,57,57,57,57,57,57,57,57,57,57,57,57>> >>
LongName == Rep(97, 63) \o <<98, 99>>        \* 65 bytes
F == <<102>>                                   \* the field "f"
X == <<120>>                                   \* the value "x"
Colon == <<58>>
Sp == <<32>>

Case(form, q, fields, vals, df) == [form |-> form, q_codes |-> q, q |-> "", fields |-> fields, vals |-> vals, df |-> df, df_codes |-> <<>>, alt |-> ""]
\* the default field itself is adversarial (WithDefaultField(w)); bare terms are scoped to it
DfCase(form, q, w, vals) == [form |-> form, q_codes |-> q, q |-> "", fields |-> {w}, vals |-> vals, df |-> "", df_codes |-> w, alt |-> ""]
DfCases(w) == { DfCase("df_bare", X, w, {X}), DfCase("df_and", X \o <<32,65,78,68,32,121>>, w, {X, <<121>>}),
                DfCase("df_not", <<78,79,84,32>> \o X, w, {X}), DfCase("df_wild", X \o <<42>>, w, {X \o <<42>>}) }
\* ways to write a value
Spell(w) == {Esc(w)} \cup (IF HasDQ(w) THEN {} ELSE {Quote(w)})

ValueCases(w) ==
  UNION {{ Case("eq", F \o Colon \o s, {F}, {w}, ""),
           Case("gt", F \o <<58,62>> \o s, {F}, {w}, ""),
           Case("range", F \o <<58,91>> \o s \o <<32,84,79,32>> \o s \o <<93>>, {F}, {w}, ""),
           Case("rangeopen", F \o <<58,123>> \o s \o <<32,84,79,32,42,125>>, {F}, {w, <<42>>}, ""),
           Case("range_lo", F \o <<58,91>> \o s \o <<32,84,79,32,122,93>>, {F}, {w, <<122>>}, ""),       \* f:[s TO z]
           Case("range_hi", F \o <<58,91,97,32,84,79,32>> \o s \o <<93>>, {F}, {w, <<97>>}, ""),          \* f:[a TO s]
           Case("range_num", F \o <<58,91>> \o s \o <<32,84,79,32,53,93>>, {F}, {w}, ""),                 \* f:[s TO 5]
           Case("range_num2", F \o <<58,123,53,32,84,79,32>> \o s \o <<125>>, {F}, {w}, ""),              \* f:{5 TO s}
           Case("list", F \o <<58,40>> \o s \o <<32,79,82,32>> \o X \o <<41>>, {F}, {w, X}, ""),
           Case("list2", F \o <<58,40>> \o X \o <<32,79,82,32>> \o s \o <<41>>, {F}, {w, X}, ""),                       \* f:(x OR s)
           Case("list3", F \o <<58,40>> \o X \o <<32,79,82,32,121,32,79,82,32>> \o s \o <<41>>, {F}, {w, X, <<121>>}, ""),   \* f:(x OR y OR s)
           Case("not", <<78,79,84,32>> \o F \o Colon \o s, {F}, {w}, ""),
           \* a comparison / a field whose value is a parenthesised field expression: f:>=(g:s)  f:<(g:[s TO z])  f:(g:s)
           Case("cmp_group", F \o <<58,62,61,40,103,58>> \o s \o <<41>>, {F, <<103>>}, {w}, ""),
           Case("cmp_group_range", F \o <<58,60,40,103,58,91>> \o s \o <<32,84,79,32,122,93,41>>, {F, <<103>>}, {w, <<122>>}, ""),
           Case("eq_group", F \o <<58,40,103,58>> \o s \o <<41>>, {F, <<103>>}, {w}, ""),
           \* compound range bounds (rejected by the parser today; if accepted, the SQL must still be one confined expression)
           Case("range_notlo", F \o <<58,91,78,79,84,32>> \o s \o <<32,84,79,32,122,93>>, {F}, {w, <<122>>}, ""),               \* f:[NOT s TO z]
           Case("range_orlo", F \o <<58,91,40>> \o s \o <<32,79,82,32,120,41,32,84,79,32,122,93>>, {F}, {w, X, <<122>>}, ""),   \* f:[(s OR x) TO z]
           Case("range_orhi", F \o <<58,91,97,32,84,79,32,40>> \o s \o <<32,79,82,32,120,41,93>>, {F}, {w, X, <<97>>}, ""),     \* f:[a TO (s OR x)]
           Case("and", F \o Colon \o s \o <<32,65,78,68,32,103,58,121>>, {F, <<103>>}, {w, <<121>>}, ""),
           Case("bare", s, {}, {w}, ""),
           Case("bare_df", s, {<<100>>}, {w}, "d") } : s \in Spell(w)}
  \cup { Case("like", F \o Colon \o Esc(w) \o <<42>>, {F}, {Esc(w) \o <<42>>}, "") }   \* the pattern is the text as typed
FieldCases(w) ==
  { Case("field", Esc(w) \o Colon \o X, {w}, {X}, ""),
    Case("field_range", Esc(w) \o <<58,91,49,32,84,79,32,50,93>>, {w}, {}, ""),
    Case("field_like", Esc(w) \o Colon \o X \o <<42>>, {w}, {X \o <<42>>}, ""),
    Case("field_gt", Esc(w) \o <<58,62>> \o X, {w}, {X}, ""), Case("field_le", Esc(w) \o <<58,60,61,53>>, {w}, {}, ""),
    Case("field_list", Esc(w) \o <<58,40>> \o X \o <<32,79,82,32,121,41>>, {w}, {X, <<121>>}, "") }
  \cup (IF HasDQ(w) THEN {} ELSE {Case("field_q", Quote(w) \o Colon \o X, {w}, {X}, "")})
NumCases(w) ==
  { Case("num", F \o Colon \o w, {F}, {w}, ""), Case("num_gt", F \o <<58,62>> \o w, {F}, {w}, ""),
    Case("num_range", F \o <<58,91>> \o w \o <<32,84,79,32>> \o w \o <<93>>, {F}, {w}, ""),
    Case("num_list", F \o <<58,40>> \o w \o <<32,79,82,32,49,41>>, {F}, {w}, ""),
    Case("num_field", w \o Colon \o X, {w}, {X}, ""), Case("num_bare", w, {}, {w}, ""),
    Case("num_field_range", w \o <<58,91,49,32,84,79,32,50,93>>, {w}, {}, ""),
    Case("num_field_like", w \o <<58,120,42>>, {w}, {<<120,42>>}, ""), Case("num_field_re", w \o <<58,47,120,47>>, {w}, {<<47,120,47>>}, "") }

\* thorough tier: random strings over the characters that matter to a SQL scanner, and field x value pairs
AdvChars == <<39, 34, 92, 59, 45, 45, 47, 42, 0, 255, 37, 95, 10, 36, 63, 40, 41, 44, 32, 97, 49, 39, 92, 195, 169, 58, 91, 93, 123, 125, 126, 94, 43, 61, 62, 60, 46>>
RECURSIVE RandStr(_)
RandStr(n) == IF n = 0 THEN <<>> ELSE <<AdvChars[RandomElement(1..Len(AdvChars))]>> \o RandStr(n - 1)
RandVals == IF Tier = "quick" THEN {} ELSE {RandStr(RandomElement(1..8)) : i \in 1..1500}
PairCases == IF Tier = "quick" THEN {}
             ELSE {Case("pair", Esc(Adv[i]) \o Colon \o Esc(Adv[j]), {Adv[i]}, {Adv[j]}, "") : i \in DOMAIN Adv, j \in DOMAIN Adv}
                  \cup {Case("pair_df", Esc(Adv[j]), {Adv[i]}, {Adv[j]}, "") : i \in {1, 2, 5}, j \in DOMAIN Adv}
All == UNION {ValueCases(Adv[i]) \cup FieldCases(Adv[i]) \cup DfCases(Adv[i]) : i \in DOMAIN Adv} \cup DfCases(LongName)
       \cup UNION {ValueCases(w) \cup FieldCases(w) : w \in RandVals} \cup PairCases
       \cup UNION {NumCases(NumLike[i]) : i \in DOMAIN NumLike}
       \cup FieldCases(LongName) \cup ValueCases(LongName)
Cases == LET s == SetToSeq(All) IN [i \in DOMAIN s |-> s[i] @@ [id |-> i, kind |-> "adv"]]

VARIABLE x
Init == x = 0
Next == FALSE /\ x' = x
Spec == Init /\ [][Next]_x
Post == /\ TLCGet("stats").diameter >= 0
        /\ ndJsonSerialize(OutFile, Cases)
        /\ PrintT("GENERATED " \o ToJson([cases |-> Len(Cases)]))
=======================================================================
