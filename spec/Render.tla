----------------------------- MODULE Render -----------------------------
(* MECH: the PostgreSQL driver, transcribed.  Fold.tla says HOW driver.Base walks a tree; this module says   *)
(* WHAT the functions registered by driver.NewPostgresDriver (pkg/driver/renderfn.go, base.go) compute, so  *)
(* that the model predicts the exact text of lucene.ToPostgres and the text + parameter list of              *)
(* lucene.ToParameterizedPostgres for a parsed tree.  Texts are TLC strings (Len, SubSeq, Tail, \o work on   *)
(* them), so every strings.ReplaceAll / Split / Trim / Atoi / Sprintf of the Go code is spelled out here.    *)
(* The model is bound to the code by JudgeRender (conformance: predicted = observed, else DRIFT) and is      *)
(* itself model checked by MC_Render (the model-level form of C04: substituting the parameters into the      *)
(* parameterized text gives the inline text, except where %.2f rounds).                                      *)
(* Domain: values are ASCII without NUL (literal() rejects NUL / invalid UTF-8: modelled by BadBytes being   *)
(* handed in by the caller); numbers are given as Go prints them with %v.                                    *)
EXTENDS Integers, Sequences, FiniteSets, TLC

\* ---- strings -----------------------------------------------------------------------------------------
Ch(s, i) == SubSeq(s, i, i)
RECURSIVE ReplaceAll(_,_,_)
ReplaceAll(s, a, b) == IF s = "" THEN "" ELSE (IF Ch(s, 1) = a THEN b ELSE Ch(s, 1)) \o ReplaceAll(Tail(s), a, b)
HasCh(s, a) == \E i \in 1..Len(s) : Ch(s, i) = a
RECURSIVE TrimL(_), TrimR(_)
TrimL(s) == IF s # "" /\ Ch(s, 1) = " " THEN TrimL(Tail(s)) ELSE s
TrimR(s) == IF s # "" /\ Ch(s, Len(s)) = " " THEN TrimR(SubSeq(s, 1, Len(s) - 1)) ELSE s
Trim(s) == TrimR(TrimL(s))
\* strings.Split(s, ","): positions of the commas, then the pieces between them
Commas(s) == {i \in 1..Len(s) : Ch(s, i) = ","}
RECURSIVE SplitFrom(_,_)
SplitFrom(s, from) ==
  LET cs == {i \in Commas(s) : i >= from} IN
  IF cs = {} THEN <<SubSeq(s, from, Len(s))>>
  ELSE LET c == CHOOSE i \in cs : \A j \in cs : i <= j IN <<SubSeq(s, from, c - 1)>> \o SplitFrom(s, c + 1)
Split(s) == SplitFrom(s, 1)
Digit(c) == c \in {"0","1","2","3","4","5","6","7","8","9"}
AllDigits(s) == s # "" /\ \A i \in 1..Len(s) : Digit(Ch(s, i))

\* ---- numbers as Go reads and prints them ----------------------------------------------------------------
\* strconv.Atoi accepts [+-]?digits within 64 bits (up to 18 digits always fit; 19 and more: "unknown")
Unsigned(s) == IF s # "" /\ Ch(s, 1) \in {"+","-"} THEN Tail(s) ELSE s
Neg(s) == s # "" /\ Ch(s, 1) = "-"
IsInt(s) == AllDigits(Unsigned(s))
IntKnown(s) == Len(Unsigned(s)) <= 18
RECURSIVE StripZeros(_)
StripZeros(d) == IF Len(d) > 1 /\ Ch(d, 1) = "0" THEN StripZeros(Tail(d)) ELSE d
\* Sprintf("%d", Atoi(s))
FmtInt(s) == LET d == StripZeros(Unsigned(s)) IN IF Neg(s) /\ d # "0" THEN "-" \o d ELSE d

\* a decimal text  [+-]digits[.digits][e[+-]digits]  as (neg, digits, scale): value = digits * 10^-scale
EPos(s) == {i \in 1..Len(s) : Ch(s, i) \in {"e","E"}}
DotPos(s) == {i \in 1..Len(s) : Ch(s, i) = "."}
Mant(s) == IF EPos(s) = {} THEN s ELSE SubSeq(s, 1, (CHOOSE i \in EPos(s) : TRUE) - 1)
ExpTxt(s) == IF EPos(s) = {} THEN "0" ELSE SubSeq(s, (CHOOSE i \in EPos(s) : TRUE) + 1, Len(s))
IntPart(m) == IF DotPos(m) = {} THEN m ELSE SubSeq(m, 1, (CHOOSE i \in DotPos(m) : TRUE) - 1)
FracPart(m) == IF DotPos(m) = {} THEN "" ELSE SubSeq(m, (CHOOSE i \in DotPos(m) : TRUE) + 1, Len(m))
RECURSIVE ToNat(_)
ToNat(d) == IF d = "" THEN 0 ELSE 10 * ToNat(SubSeq(d, 1, Len(d) - 1)) + (CHOOSE k \in 0..9 : ToString(k) = Ch(d, Len(d)))
\* strconv.ParseFloat accepts more spellings (inf, nan, hex, underscores); none of them is printed by %v of an int or a
\* finite float64, which is all that reaches rang() unquoted
IsDec(s) == LET u == Unsigned(s)  m == Mant(u)  e == ExpTxt(u) IN
            /\ Cardinality(EPos(u)) <= 1 /\ Cardinality(DotPos(m)) <= 1
            /\ (IntPart(m) = "" \/ AllDigits(IntPart(m))) /\ (FracPart(m) = "" \/ AllDigits(FracPart(m)))
            /\ IntPart(m) \o FracPart(m) # ""
            /\ AllDigits(Unsigned(e)) /\ Len(Unsigned(e)) <= 3
DecDigits(s) == LET m == Mant(Unsigned(s)) IN IntPart(m) \o FracPart(m)
DecScale(s) == LET u == Unsigned(s)  e == ExpTxt(u) IN
               Len(FracPart(Mant(u))) - (IF Neg(e) THEN 0 - ToNat(Unsigned(e)) ELSE ToNat(Unsigned(e)))
RECURSIVE Zeros(_)
Zeros(n) == IF n <= 0 THEN "" ELSE "0" \o Zeros(n - 1)
RECURSIVE IncDigits(_)
IncDigits(d) == IF d = "" THEN "1"
                ELSE IF Ch(d, Len(d)) = "9" THEN IncDigits(SubSeq(d, 1, Len(d) - 1)) \o "0"
                ELSE SubSeq(d, 1, Len(d) - 1) \o ToString(ToNat(Ch(d, Len(d))) + 1)
AllZero(d) == \A i \in 1..Len(d) : Ch(d, i) = "0"
\* Sprintf("%.<n>f", ParseFloat(s)): [known, text].  The float64 nearest to a decimal text is not that decimal, so a digit
\* string cut exactly at ...5 may round either way: such ties are reported as unknown instead of guessed.
FmtDec(s, n) ==
  LET d == DecDigits(s)  sc == DecScale(s)
      \* bring to exactly n decimals: the value times 10^n as a digit string h
      h == IF sc <= n THEN [known |-> TRUE, d |-> d \o Zeros(n - sc)]
           ELSE LET cut == sc - n
                    padded == Zeros(cut - Len(d) + 1) \o d          \* at least cut+1 digits
                    keep == SubSeq(padded, 1, Len(padded) - cut)
                    rest == SubSeq(padded, Len(padded) - cut + 1, Len(padded))
                    first == ToNat(Ch(rest, 1))
                    tie == first = 5 /\ AllZero(Tail(rest))
                IN [known |-> ~tie, d |-> IF first >= 5 THEN IncDigits(keep) ELSE keep]
      p == Zeros(n + 1 - Len(h.d)) \o h.d
      ip == StripZeros(SubSeq(p, 1, Len(p) - n))
      txt == ip \o "." \o SubSeq(p, Len(p) - n + 1, Len(p))
  IN [known |-> h.known /\ sc < 400 /\ sc > -400, text |-> IF Neg(s) /\ ~AllZero(d) THEN "-" \o txt ELSE txt]
Fmt2(s) == FmtDec(s, 2)

\* ---- serialize() and the render functions ------------------------------------------------------------------
R(ok, s, params, known) == [ok |-> ok, s |-> s, params |-> params, known |-> known]
Err == R(FALSE, "", <<>>, TRUE)
Unknown == R(FALSE, "", <<>>, FALSE)
Quoted(v) == "'" \o ReplaceAll(v, "'", "''") \o "'"
\* base.go serialize: a raw leaf value (inline) / serializeParams (param = TRUE: a placeholder and the value)
SerLeaf(leaf, param) ==
  CASE leaf.ty = "col" -> IF leaf.v = "" \/ HasCh(leaf.v, "\"") THEN Err ELSE R(TRUE, "\"" \o leaf.v \o "\"", <<>>, TRUE)
    [] param           -> R(TRUE, "?", <<[ty |-> leaf.ty, v |-> leaf.v]>>, TRUE)
    [] leaf.ty = "str" -> R(TRUE, Quoted(leaf.v), <<>>, TRUE)
    [] OTHER           -> R(TRUE, leaf.v, <<>>, TRUE)

LeafOps == {"LIT","WILD","REGEXP"}
NoWrap == {"RANGE","NOT","LIST","IN","LIT","MUST","MUST_NOT"}
Simple(T) == T.op \in LeafOps
Arg(op, child, text) == IF op \notin NoWrap /\ ~Simple(child) THEN "(" \o text \o ")" ELSE text

IsRegexpText(t) == Len(t) >= 2 /\ Ch(t, 1) = "/" /\ Ch(t, Len(t)) = "/"
\* renderfn.go toSQLWildcards: the unescaped wildcards become % and _ ; a backslash keeps the character after it as it is
RECURSIVE Stars(_)
Stars(t) == IF t = "" THEN ""
            ELSE IF Ch(t, 1) = "\\" /\ Len(t) >= 2 THEN SubSeq(t, 1, 2) \o Stars(SubSeq(t, 3, Len(t)))
            ELSE (IF Ch(t, 1) = "*" THEN "%" ELSE IF Ch(t, 1) = "?" THEN "_" ELSE Ch(t, 1)) \o Stars(Tail(t))

\* renderfn.go rang / rangParam on the serialized boundary text "[min, max]" / "(min, max)"
Star == "'*'"
RangeText(left, right, params, rparams, isParam) ==
  LET inclusive == ~(Ch(right, 1) = "(" /\ Ch(right, Len(right)) = ")")
      parts == Split(SubSeq(right, 2, Len(right) - 1))
  IN IF Len(parts) # 2 THEN Err ELSE
     LET mn == Trim(parts[1])  mx == Trim(parts[2])
         ge == IF inclusive THEN " >= " ELSE " > "
         le == IF inclusive THEN " <= " ELSE " < "
         shape(a, b) == IF mn = Star THEN left \o le \o b
                        ELSE IF mx = Star THEN left \o ge \o a
                        ELSE left \o ge \o a \o " AND " \o left \o le \o b
         between == left \o " BETWEEN " \o mn \o " AND " \o mx
         intOk(x) == x = Star \/ IsInt(x)
         decOk(x) == x = Star \/ IsDec(x)
         \* an unbounded end leaves the zero value behind in toInts / toFloats; it is printed when both ends are unbounded
         f(x) == IF x = Star THEN [known |-> TRUE, text |-> "0.00"] ELSE Fmt2(x)
     IN IF isParam /\ (mn = "?" \/ mx = "?")
        THEN (IF rparams[1].ty \in {"int","float"} THEN R(TRUE, shape(mn, mx), params, TRUE) ELSE R(TRUE, between, params, TRUE))
        ELSE IF intOk(mn) /\ intOk(mx)
             THEN (IF (mn = Star \/ IntKnown(mn)) /\ (mx = Star \/ IntKnown(mx))
                   THEN R(TRUE, shape(IF mn = Star THEN "0" ELSE FmtInt(mn), IF mx = Star THEN "0" ELSE FmtInt(mx)), params, TRUE)
                   ELSE Unknown)
        ELSE IF decOk(mn) /\ decOk(mx)
             THEN (IF f(mn).known /\ f(mx).known THEN R(TRUE, shape(f(mn).text, f(mx).text), params, TRUE) ELSE Unknown)
        ELSE R(TRUE, between, params, TRUE)

Apply(op, l, r, params, isParam, rparams) ==
  CASE op \in {"AND","OR"} -> R(TRUE, l \o " " \o op \o " " \o r, params, TRUE)
    [] op \in {"NOT","MUST_NOT"} -> R(TRUE, "NOT(" \o l \o ")", params, TRUE)
    [] op = "MUST"   -> R(TRUE, l, params, TRUE)
    [] op = "EQUALS" -> R(TRUE, l \o " = " \o r, params, TRUE)
    [] op = "GREATER" -> R(TRUE, l \o " > " \o r, params, TRUE)
    [] op = "LESS"    -> R(TRUE, l \o " < " \o r, params, TRUE)
    [] op = "GREATER_EQ" -> R(TRUE, l \o " >= " \o r, params, TRUE)
    [] op = "LESS_EQ"    -> R(TRUE, l \o " <= " \o r, params, TRUE)
    [] op = "IN"   -> R(TRUE, l \o " IN " \o r, params, TRUE)
    [] op = "LIST" -> R(TRUE, "(" \o l \o ")", params, TRUE)
    [] op = "LIKE" ->
         IF isParam
         THEN (IF Len(rparams) = 1 /\ IsRegexpText(rparams[1].v) THEN R(TRUE, l \o " ~ " \o r, params, TRUE)
               ELSE R(TRUE, l \o " SIMILAR TO " \o r, params, TRUE))
         ELSE (IF Len(r) >= 4 /\ Ch(r, 2) = "/" /\ Ch(r, Len(r) - 1) = "/" THEN R(TRUE, l \o " ~ " \o r, params, TRUE)
               ELSE R(TRUE, l \o " SIMILAR TO " \o Stars(r), params, TRUE))
    [] op = "RANGE" -> RangeText(l, r, params, rparams, isParam)
    [] OTHER -> Err          \* FUZZY, BOOST: no function registered

\* Base.Render / Base.RenderParam.  A failing child fails the whole render; unknown is contagious.
RECURSIVE Ren(_,_), RenItems(_,_,_,_)
Bad(a) == ~a.ok
RenItems(items, i, isParam, acc) ==
  IF i > Len(items) THEN acc
  ELSE LET w == Ren(items[i], isParam) IN
       IF Bad(w) THEN w ELSE RenItems(items, i + 1, isParam, R(TRUE, IF i = 1 THEN w.s ELSE acc.s \o ", " \o w.s, acc.params \o w.params, TRUE))
\* serializeBoundParams: an unbounded end is the text '*' and carries no parameter
Bound(b, isParam) == IF isParam /\ b.op \in LeafOps /\ b.ty = "str" /\ b.v = "*" THEN R(TRUE, Star, <<>>, TRUE) ELSE Ren(b, isParam)
Ren(T, isParam) ==
  CASE T.op \in LeafOps -> SerLeaf(T, isParam)           \* literal(): the serialized value itself
    [] T.op \in {"NOT","MUST","MUST_NOT","FUZZY","BOOST"} ->
         LET a == Ren(T.l, isParam) IN IF Bad(a) THEN a ELSE Apply(T.op, Arg(T.op, T.l, a.s), "", a.params, isParam, <<>>)
    [] T.op = "RANGE" ->
         LET a == Ren(T.l, isParam) IN IF Bad(a) THEN a ELSE
         LET lo == Bound(T.lo, isParam) IN IF Bad(lo) THEN lo ELSE
         LET hi == Bound(T.hi, isParam) IN IF Bad(hi) THEN hi ELSE
         LET rp == lo.params \o hi.params
             rt == (IF T.inc THEN "[" ELSE "(") \o lo.s \o ", " \o hi.s \o (IF T.inc THEN "]" ELSE ")")
         IN RangeText(a.s, rt, a.params \o rp, rp, isParam)
    [] T.op = "IN" ->
         LET a == Ren(T.l, isParam) IN IF Bad(a) THEN a ELSE
         LET its == RenItems(T.items, 1, isParam, R(TRUE, "", <<>>, TRUE)) IN IF Bad(its) THEN its ELSE
         Apply("IN", a.s, "(" \o its.s \o ")", a.params \o its.params, isParam, <<>>)
    [] OTHER ->
         LET a == Ren(T.l, isParam) IN IF Bad(a) THEN a ELSE
         LET b == Ren(T.r, isParam) IN IF Bad(b) THEN b ELSE
         \* RenderParam rewrites the first right-hand parameter of a LIKE: * -> %, ? -> _ unless it is a /regexp/
         LET bp == IF T.op = "LIKE" /\ isParam /\ Len(b.params) >= 1 /\ ~IsRegexpText(b.params[1].v)
                   THEN <<[b.params[1] EXCEPT !.v = Stars(@)]>> \o Tail(b.params) ELSE b.params
         IN Apply(T.op, Arg(T.op, T.l, a.s), Arg(T.op, T.r, b.s), a.params \o bp, isParam, bp)

Inline(T) == Ren(T, FALSE)
Param(T) == Ren(T, TRUE)

\* ---- the model-level form of C04 -----------------------------------------------------------------------------
\* substituting the parameters, rendered as inline constants, for the placeholders (left to right)
ParamText(p) == IF p.ty = "str" THEN Quoted(p.v) ELSE p.v
RECURSIVE Subst(_,_)
Subst(s, ps) == IF s = "" THEN ""
                ELSE IF Ch(s, 1) = "?" /\ ps # <<>> THEN ParamText(ps[1]) \o Subst(Tail(s), Tail(ps))
                ELSE Ch(s, 1) \o Subst(Tail(s), ps)
=========================================================================
