------------------------------ MODULE Fold ------------------------------
(* Specification of the fold that driver.Base.Render performs (pkg/driver/base.go:108-150), which is   *)
(* both what the code does (MECH, one call per node) and what C15 demands (REF): every node is visited   *)
(* once, bottom-up, left before right; the function registered for the node's operator receives the      *)
(* rendered children (wrapped in parentheses at most); a missing function makes the whole render fail.   *)
(* A render-function map m is a function from operator names to labels; the tracing function registered  *)
(* for op returns the unique text "<label:k>" for the k-th call overall, so results can be recognised in  *)
(* the parents' arguments and an overridden function (another label) is visible exactly at its nodes.     *)
EXTENDS Integers, Sequences, TLC

FLeafOps == {"LIT","WILD","REGEXP"}
\* what serialize() hands to a leaf's function for the raw value (column names with a double quote or empty ones make serialize
\* itself fail: those trees are C02's subject and are left out by the recorder)
Ch(s, i) == SubSeq(s, i, i)
RECURSIVE Doubled(_)
Doubled(s) == IF s = "" THEN "" ELSE (IF Ch(s, 1) = "'" THEN "''" ELSE Ch(s, 1)) \o Doubled(Tail(s))     \* base.go: every ' doubled
Ser(leaf) == CASE leaf.ty = "str" -> "'" \o Doubled(leaf.v) \o "'"
               [] leaf.ty = "col" -> "\"" \o leaf.v \o "\""
               [] OTHER -> leaf.v
\* (the label BLANK stands for a function that renders its node to the empty text: a driver that drops the operator)
Ret(lab, k) == IF lab = "BLANK" THEN "" ELSE "<" \o lab \o ":" \o ToString(k) \o ">"
\* base.go:125/isSimple - a child that is not a plain term is wrapped in parentheses for these operators
Wraps(op) == op \notin {"RANGE","NOT","LIST","IN","LIT","MUST","MUST_NOT","WILD","REGEXP"}
Simple(T) == T.op \in FLeafOps
Arg(parentOp, child, text) == IF Wraps(parentOp) /\ ~Simple(child) THEN "(" \o text \o ")" ELSE text

\* Walk(T, k, m): the calls made for subtree T when k calls were made before; ok = FALSE once an operator has no
\* function (the calls made until then are kept: children are rendered before the parent's function is looked up)
\* l, r = the arguments as Base passes them (MECH); lb, rb = the bare rendered children: the property allows the
\* arguments to be the children "wrapped in parentheses at most" (REF)
Call(op, lab, l, r, lb, rb, k) == [op |-> op, l |-> l, r |-> r, lb |-> lb, rb |-> rb, ret |-> Ret(lab, k)]
Res(calls, ret, k, ok) == [calls |-> calls, ret |-> ret, k |-> k, ok |-> ok]
Node2(op, l, r, lb, rb, calls, k, m) ==
  IF op \in DOMAIN m THEN Res(Append(calls, Call(op, m[op], l, r, lb, rb, k + 1)), Ret(m[op], k + 1), k + 1, TRUE)
  ELSE Res(calls, "", k, FALSE)
Node(op, l, r, calls, k, m) == Node2(op, l, r, l, r, calls, k, m)

RECURSIVE Walk(_,_,_), WalkItems(_,_,_,_,_,_)
\* list items are rendered left to right and joined with ", "
WalkItems(items, i, k, m, calls, text) ==
  IF i > Len(items) THEN Res(calls, text, k, TRUE)
  ELSE LET w == Walk(items[i], k, m) IN
       IF ~w.ok THEN Res(calls \o w.calls, "", w.k, FALSE)
       ELSE WalkItems(items, i + 1, w.k, m, calls \o w.calls, IF i = 1 THEN w.ret ELSE text \o ", " \o w.ret)

Walk(T, k, m) ==
  CASE T.op \in FLeafOps -> Node(T.op, Ser(T), "", <<>>, k, m)
    [] T.op \in {"NOT","MUST","MUST_NOT","FUZZY","BOOST"} ->
         LET a == Walk(T.l, k, m) IN
         IF ~a.ok THEN a ELSE Node2(T.op, Arg(T.op, T.l, a.ret), "", a.ret, "", a.calls, a.k, m)
    [] T.op = "RANGE" ->
         LET a == Walk(T.l, k, m) IN IF ~a.ok THEN a ELSE
         LET lo == Walk(T.lo, a.k, m) IN IF ~lo.ok THEN Res(a.calls \o lo.calls, "", lo.k, FALSE) ELSE
         LET hi == Walk(T.hi, lo.k, m) IN IF ~hi.ok THEN Res(a.calls \o lo.calls \o hi.calls, "", hi.k, FALSE) ELSE
         Node("RANGE", a.ret, IF T.inc THEN "[" \o lo.ret \o ", " \o hi.ret \o "]" ELSE "(" \o lo.ret \o ", " \o hi.ret \o ")",
              a.calls \o lo.calls \o hi.calls, hi.k, m)
    [] T.op = "IN" ->
         LET a == Walk(T.l, k, m) IN IF ~a.ok THEN a ELSE
         LET its == WalkItems(T.items, 1, a.k, m, <<>>, "") IN IF ~its.ok THEN Res(a.calls \o its.calls, "", its.k, FALSE) ELSE
         LET lst == Node("LIST", its.ret, "", a.calls \o its.calls, its.k, m) IN IF ~lst.ok THEN lst ELSE
         Node("IN", a.ret, lst.ret, lst.calls, lst.k, m)
    [] OTHER ->     \* AND OR EQUALS LIKE GREATER LESS GREATER_EQ LESS_EQ
         LET a == Walk(T.l, k, m) IN IF ~a.ok THEN a ELSE
         LET b == Walk(T.r, a.k, m) IN IF ~b.ok THEN Res(a.calls \o b.calls, "", b.k, FALSE) ELSE
         Node2(T.op, Arg(T.op, T.l, a.ret), Arg(T.op, T.r, b.ret), a.ret, b.ret, a.calls \o b.calls, b.k, m)

Fold(T, m) == Walk(T, 0, m)

RECURSIVE OpsOf(_)
OpsOf(T) == CASE T.op \in FLeafOps -> {T.op}
              [] T.op \in {"NOT","MUST","MUST_NOT","FUZZY","BOOST"} -> {T.op} \cup OpsOf(T.l)
              [] T.op = "RANGE" -> {"RANGE"} \cup OpsOf(T.l) \cup OpsOf(T.lo) \cup OpsOf(T.hi)
              [] T.op = "IN" -> {"IN","LIST"} \cup OpsOf(T.l) \cup UNION {OpsOf(T.items[i]) : i \in DOMAIN T.items}
              [] OTHER -> {T.op} \cup OpsOf(T.l) \cup OpsOf(T.r)
=========================================================================
