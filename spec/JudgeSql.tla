---------------------------- MODULE JudgeSql ----------------------------
(* Verdicts for C03 / C04 (leaf level) and C02 on the REAL renderer output, as PostgreSQL's own parser  *)
(* reads it (harness sql-cases).  A line carries the generator's expectation (ref, vals, probes, field)  *)
(* next to the observation (inline / param: outcome, text, AST, parameters).                             *)
EXTENDS Integers, Sequences, FiniteSets, TLC, Json
Q   == INSTANCE Sql
Sem == INSTANCE Semantics
KF  == INSTANCE KnownFindings
RM  == INSTANCE Render

CONSTANTS ResFile, VerdictFile, Prop, Shards
Lines == ndJsonDeserialize(ResFile)

Fail(prop, c, clause, kf) == [prop |-> prop, id |-> c.id, q |-> IF c.q = "" THEN c.q_codes ELSE c.q, clause |-> clause, kf |-> kf]
Row(c, x) == (c.field :> x)

\* ---- C03, leaf level: the inline SQL is true on exactly the probe rows on which the leaf is true ---------
KfC03(c) ==
  LET ast == c.inline.read.ast  r == c.ref IN
  CASE c.inline.out # "ok" -> (IF KF!KF_C03_CommaBound(r, c.inline.out) THEN "C03-comma-bound" ELSE "none")
    [] KF!KF_C03_StrRangeExclusive(r, ast) -> "C03-string-range-exclusive"
    [] KF!KF_C03_StrRangeOpen(r, ast)      -> "C03-string-range-open"
    [] KF!KF_C03_StarStar(r, ast)          -> "C03-star-star"
    [] KF!KF_C03_MixedBrackets(r, ast)     -> "C03-mixed-brackets"
    [] KF!KF_C03_MixedBracketsOpen(r, ast) -> "C03-mixed-brackets"
    [] KF!KF_C03_DecimalRounding(r, ast)   -> "C03-decimal-rounding"
    [] KF!KF_C03_UnderscorePattern(r, ast) -> "C03-underscore-pattern"
    [] OTHER -> "none"
Faithful(c, ast) ==
  /\ \A i \in DOMAIN c.probes : Q!WellTyped(ast, Row(c, c.probes[i]))
  /\ \A i \in DOMAIN c.probes : Q!EvalSql(ast, Row(c, c.probes[i])) = Sem!EvalRef(c.ref, c.probes[i])
RECURSIVE NumKeys(_)
NumKeys(s) == CASE s.k = "bool"    -> UNION {NumKeys(s.args[i]) : i \in DOMAIN s.args}
                [] s.k = "cmp"     -> NumKeys(s.l) \cup NumKeys(s.r)
                [] s.k = "between" -> NumKeys(s.x) \cup NumKeys(s.lo) \cup NumKeys(s.hi)
                [] s.k = "in"      -> NumKeys(s.x) \cup UNION {NumKeys(s.items[i]) : i \in DOMAIN s.items}
                [] s.k = "const" /\ s.ty # "str" -> {s.key}
                [] OTHER -> {}
\* every integer of the query appears in the SQL as exactly that number
IntsPreserved(c) == \A i \in DOMAIN c.vals : c.vals[i].ty = "int" => c.vals[i].key \in NumKeys(c.inline.read.ast)
C03(c) ==
  IF c.form = "big" THEN
     (IF c.inline.out = "ok" /\ c.inline.read.pg_ok /\ c.inline.read.frame_ok /\ IntsPreserved(c) THEN <<>>
      ELSE <<Fail("C03", c, "an integer of the query is not that number in the inline SQL", "none")>>)
  ELSE
  IF c.inline.out # "ok" THEN <<Fail("C03", c, "ToPostgres failed on a filterable query", KfC03(c))>>
  ELSE IF ~(c.inline.read.pg_ok /\ c.inline.read.frame_ok) THEN <<Fail("C03", c, "PostgreSQL does not read the text as one WHERE expression", "none")>>
  ELSE IF Faithful(c, c.inline.read.ast) THEN <<>>
  ELSE <<Fail("C03", c, "inline SQL selects other rows than the query means", KfC03(c))>>

\* ---- C04: parameterized agrees with inline ------------------------------------------------------------
SameParam(p, v) == p.ty = v.ty /\ (IF v.ty = "str" THEN p.codes = v.codes ELSE IF p.exact THEN p.n = v.n ELSE p.key = v.key)
ParamsAreValues(c) == Len(c.param.params) = Len(c.vals) /\ \A i \in DOMAIN c.vals : SameParam(c.param.params[i], c.vals[i])
Equivalent(c) ==
  LET sub == Q!Subst(c.param.read.ast, c.param.params) IN
  \/ Q!SameAst(Q!NormBetween(sub), Q!NormBetween(c.inline.read.ast))
  \/ /\ \A i \in DOMAIN c.probes : Q!WellTyped(sub, Row(c, c.probes[i])) /\ Q!WellTyped(c.inline.read.ast, Row(c, c.probes[i]))
     /\ \A i \in DOMAIN c.probes : Q!EvalSql(sub, Row(c, c.probes[i])) = Q!EvalSql(c.inline.read.ast, Row(c, c.probes[i]))
\* where the two renderers disagree because the INLINE text has one of the known C03 defects (the parameterized
\* text is right), the disagreement is that same finding seen from C04
KfC04(c) == IF c.inline.out = "ok" /\ c.param.out = "ok" /\ c.param.read.pg_ok
               /\ KF!KF_C03_DecimalRounding(c.ref, c.inline.read.ast)
               /\ Q!SameAstTol(Q!Subst(c.param.read.ast, c.param.params), c.inline.read.ast, 5000)
            THEN "C04-inline-decimal-rounding" ELSE "none"
KfNumField(c) == IF c.param.read.pg_ok /\ KF!KF_C04_NumericFieldRange(c.param.read.ast, c.param.params, c.param.read.nplace)
                 THEN "C04-numeric-field-range" ELSE "none"
C04adv(c) ==
  IF c.inline.out # "ok" THEN <<>>
  ELSE IF c.param.out # "ok" THEN <<Fail("C04", c, "ToPostgres succeeds but ToParameterizedPostgres does not", "none")>>
  ELSE IF KfNumField(c) # "none" THEN <<Fail("C04", c, "placeholders and parameters do not correspond one to one", KfNumField(c))>>
  ELSE (IF c.param.read.pg_ok /\ c.param.read.nplace = Len(c.param.params) /\ Q!ParamsOf(c.param.read.ast) = [i \in 1..Len(c.param.params) |-> i]
        THEN <<>> ELSE <<Fail("C04", c, "placeholders and parameters do not correspond one to one", "none")>>)
    \o (IF c.param.read.pg_ok /\ c.inline.read.pg_ok
           /\ Q!SameAst(Q!NormBetween(Q!Subst(c.param.read.ast, c.param.params)), Q!NormBetween(c.inline.read.ast)) THEN <<>>
        ELSE <<Fail("C04", c, "substituting the parameters does not give the inline predicate",
                    IF KF!KF_C04_MixedKindRange(c.inline.read.ast, c.param.read.ast, c.param.params) THEN "C04-mixed-kind-range" ELSE "none")>>)
\* a result is a value: the parameter slice a call returned reads the same after later calls of the library (the recorder
\* projects the very slice again after rendering the substituted query and two unrelated ones)
Stable(c) == IF c.param.out # "ok" \/ c.param.params_later = c.param.params THEN <<>>
             ELSE <<Fail("C04", c, "the parameters a call returned read differently after later calls of the library", "none")>>
C04core(c) ==
  IF c.kind = "adv" \/ c.form = "big" THEN
     C04adv(c) \o (IF c.kind = "adv" \/ c.inline.out # "ok" \/ c.param.out # "ok" \/ ParamsAreValues(c) THEN <<>>
                   ELSE <<Fail("C04", c, "the parameters are not the query's values in order with their kinds", "none")>>)
  ELSE
  IF c.inline.out # "ok" THEN <<>>
  ELSE IF c.param.out # "ok" THEN <<Fail("C04", c, "ToPostgres succeeds but ToParameterizedPostgres does not", "none")>>
  ELSE (IF c.param.read.pg_ok /\ c.param.read.nplace = Len(c.param.params) /\ Q!ParamsOf(c.param.read.ast) = [i \in 1..Len(c.param.params) |-> i]
        THEN <<>> ELSE <<Fail("C04", c, "placeholders and parameters do not correspond one to one", "none")>>)
    \o (IF ParamsAreValues(c) THEN <<>> ELSE <<Fail("C04", c, "the parameters are not the query's values in order with their kinds", "none")>>)
    \o (IF c.param.read.pg_ok /\ c.inline.read.pg_ok /\ Equivalent(c) THEN <<>>
        ELSE <<Fail("C04", c, "substituting the parameters does not give a predicate equivalent to the inline SQL", KfC04(c))>>)
    \o (IF c.alt_param.out = "none" \/ (c.alt_param.out = "ok" /\ c.alt_param.text = c.param.text) THEN <<>>
        ELSE <<Fail("C04", c, "the SQL text depends on the values", "none")>>)

C04(c) == C04core(c) \o Stable(c)

\* ---- C02: one confined Boolean expression; user text only in constants / quoted identifiers -----------
SetOf(sq) == {sq[i] : i \in DOMAIN sq}
RECURSIVE Translate(_)
Translate(c) == IF c = <<>> THEN <<>>
                ELSE IF c[1] = 92 /\ Len(c) >= 2 THEN <<c[1], c[2]>> \o Translate(SubSeq(c, 3, Len(c)))
                ELSE <<IF c[1] = 42 THEN 37 ELSE IF c[1] = 63 THEN 95 ELSE c[1]>> \o Translate(Tail(c))
\* adversarial cases list fields / vals as byte sequences; leaf cases carry one field and value records
FieldsOf(c) == IF c.kind = "adv" THEN SetOf(c.fields) ELSE {c.field}
ValsOf(c) == IF c.kind = "adv" THEN SetOf(c.vals) ELSE {c.vals[i].codes : i \in DOMAIN c.vals} \cup {<<42>>}
AllowedConsts(c) == ValsOf(c) \cup {Translate(v) : v \in ValsOf(c)}
Shape(r) == r.read.pg_ok /\ r.read.stmts = 1 /\ r.read.frame_ok /\ r.read.comments = 0 /\ Q!InFragment(r.read.ast)
Confined(c, r) == Shape(r) /\ Q!ColsOf(r.read.ast) \subseteq FieldsOf(c) /\ Q!StrConstsOf(r.read.ast) \subseteq AllowedConsts(c)
KfC02(c, r) == IF Shape(r) /\ Q!StrConstsOf(r.read.ast) \subseteq AllowedConsts(c) /\ KF!KF_C02_LongName(FieldsOf(c), Q!ColsOf(r.read.ast))
               THEN "C02-long-identifier" ELSE "none"
C02one(c, r, mode) == IF r.out # "ok" \/ Confined(c, r) THEN <<>>
                      ELSE <<Fail("C02", c, mode \o " SQL is not one confined expression over the query's own fields and values", KfC02(c, r))>>
C02(c) == C02one(c, c.inline, "inline") \o C02one(c, c.param, "parameterized")

\* conformance of the driver model (Render.tla) on the generated leaf forms (ASCII texts; the adversarial family carries
\* bytes the JSON trace cannot show exactly): predicted text and parameters = observed ones, else DRIFT (not a verdict)
ParamsSame(mp, ps) == Len(mp) = Len(ps) /\ \A i \in DOMAIN ps : mp[i].ty = ps[i].ty /\ mp[i].v = ps[i].text
RenderSame(m, r) == ~m.known \/ (m.ok = (r.out = "ok") /\ (m.ok => m.s = r.text /\ ParamsSame(m.params, r.params)))
Modelled(c) == c.kind = "leaf" /\ c.parse = "ok"
RenderConf(c) == ~Modelled(c) \/ (RenderSame(RM!Inline(c.tree), c.inline) /\ RenderSame(RM!Param(c.tree), c.param))
RenderDrift(c) == IF RenderConf(c) THEN 0
                  ELSE IF PrintT("RENDER-DRIFT " \o ToJson([q |-> c.q, model |-> RM!Inline(c.tree).s, model_param |-> RM!Param(c.tree).s,
                                                            code |-> c.inline.text, code_param |-> c.param.text])) THEN 1 ELSE 0
RenderPredicted(c) == IF Modelled(c) /\ RM!Inline(c.tree).known THEN 1 ELSE 0

Judge(c) == CASE Prop = "C03" -> C03(c) [] Prop = "C04" -> C04(c) [] Prop = "C02" -> C02(c)

VARIABLES sh, n, last, fails, kfs, nfail, nkf, judged, nrdrift, npred
vars == <<sh, n, last, fails, kfs, nfail, nkf, judged, nrdrift, npred>>
Open(f)  == SelectSeq(f, LAMBDA v : v.kf = "none")
Known(f) == SelectSeq(f, LAMBDA v : v.kf # "none")
Init == sh \in 0..(Shards - 1) /\ n = sh /\ last = <<>> /\ fails = <<>> /\ kfs = <<>> /\ nfail = 0 /\ nkf = 0 /\ judged = 0 /\ nrdrift = 0 /\ npred = 0
Next == /\ n < Len(Lines) + Shards /\ n' = n + Shards /\ UNCHANGED sh
        /\ last' = IF n < Len(Lines) THEN Judge(Lines[n + 1]) ELSE <<>>
        /\ fails' = IF Len(fails) >= 200 THEN fails ELSE fails \o Open(last)
        /\ kfs' = IF Len(kfs) >= 200 THEN kfs ELSE kfs \o Known(last)
        /\ nfail' = nfail + Len(Open(last)) /\ nkf' = nkf + Len(Known(last))
        /\ judged' = judged + (IF n < Len(Lines) THEN 1 ELSE 0)
        /\ nrdrift' = nrdrift + (IF n < Len(Lines) THEN RenderDrift(Lines[n + 1]) ELSE 0)
        /\ npred' = npred + (IF n < Len(Lines) THEN RenderPredicted(Lines[n + 1]) ELSE 0)
Spec == Init /\ [][Next]_vars
Report == n >= Len(Lines) + Shards =>
            /\ PrintT("JUDGED " \o ToJson([prop |-> Prop, shard |-> sh, judged |-> judged, failures |-> nfail, known |-> nkf,
                                                render_drift |-> nrdrift, render_predicted |-> npred]))
            /\ ndJsonSerialize(VerdictFile \o "." \o ToString(sh), fails \o kfs)
=========================================================================
