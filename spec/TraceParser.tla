-------------------------- MODULE TraceParser --------------------------
(* Trace validation: every recorded run of the real parser (hooks on) must be a behaviour of the *)
(* Parser MECH.  One logged loop iteration = one Parser action with the logged lookahead type   *)
(* and the logged post-state scalars (len(stack), len(nonTerminals), elements popped).          *)
(* The lexer calls are not logged: LexFromTrace is a silent step that feeds the next real token. *)
(* A run that leaves the model is recorded (drift) and skipped - it is never a property verdict. *)
EXTENDS Parser, Json, TLCExt

CONSTANT TraceFile, DriftFile
Cases == ndJsonDeserialize(TraceFile)
NC == Len(Cases)

VARIABLES c,      \* index of the case being validated
          s,      \* index of the next logged step of that case
          bad,    \* the current case has left the model
          nconf,  \* cases validated so far that conform
          drift   \* first mismatches, for the evidence file
tvars == <<vars, c, s, bad, nconf, drift>>

Case  == Cases[c]
NSteps == Len(Case.steps)
RealTok(i) == [t |-> Case.toks[i].t, v |-> Case.toks[i].v, pv |-> Case.toks[i].pv]

ResetTo(k) == /\ stack' = <<>> /\ nts' = <<"START">> /\ la' = NoTok /\ hist' = <<>>
              /\ status' = "run" /\ result' = NoTree /\ steps' = 0 /\ popped' = 0
              /\ df' = (IF k <= NC THEN Cases[k].df ELSE "")
              /\ c' = k /\ s' = 1 /\ bad' = FALSE

TraceInit == /\ stack = <<>> /\ nts = <<"START">> /\ la = NoTok /\ hist = <<>>
             /\ status = "run" /\ result = NoTree /\ steps = 0 /\ popped = 0
             /\ df = (IF NC >= 1 THEN Cases[1].df ELSE "")
             /\ c = 1 /\ s = 1 /\ bad = FALSE /\ nconf = 0 /\ drift = <<>>

\* silent: lex.Peek returns the next token of the recorded input (EOF when it is exhausted)
LexFromTrace ==
  /\ la = NoTok
  /\ IF Len(hist) < Len(Case.toks)
     THEN la' = RealTok(Len(hist) + 1) /\ hist' = Append(hist, la')
     ELSE la' = EofTok /\ UNCHANGED hist
  /\ UNCHANGED <<stack, nts, status, result, df, steps, popped>>

\* the Parser action named by a logged event, with the logged arguments and post-state
Event(e) ==
  /\ la.t = e.t
  /\ CASE e.a = "accept"        -> Accept
       [] e.a = "shift"         -> ShiftNT
       [] e.a = "shiftT"        -> ShiftT
       [] e.a = "implAndReduce" -> ImplAndReduce /\ status' = "run" /\ popped' - popped = e.k
       [] e.a = "reduce"        -> Reduce /\ status' = "run" /\ popped' - popped = e.k
       [] OTHER                 -> FALSE
  /\ Len(stack') = e.sl /\ Len(nts') = e.nl

\* after the last logged event a failing call must be explained by a failing model step
FailStep == (Accept \/ Reduce \/ ImplAndReduce) /\ status' # "run" /\ status' # "accept"

Outcome == Case.outcome
Conforms == \/ Outcome = "ok"  /\ status = "accept" /\ result = Case.tree
            \/ Outcome = "err" /\ status \in {"error", "invalid"}

Note(why) == [id |-> Case.id, q |-> Case.q, df |-> Case.df, step |-> s, why |-> why,
              status |-> status, la |-> la.t]

TraceNext ==
  IF c > NC THEN FALSE
  ELSE IF bad \/ status # "run" THEN
     \* end of the case: judge the outcome and move on
     /\ IF ~bad /\ s > NSteps /\ Conforms
        THEN nconf' = nconf + 1 /\ UNCHANGED drift
        ELSE /\ UNCHANGED nconf
             /\ drift' = IF bad \/ Len(drift) >= 20 THEN drift ELSE Append(drift, Note("outcome or tree differs"))
     /\ ResetTo(c + 1)
  ELSE IF la = NoTok THEN LexFromTrace /\ UNCHANGED <<c, s, bad, nconf, drift>>
  ELSE IF s <= NSteps THEN
     IF ENABLED Event(Case.steps[s])
     THEN Event(Case.steps[s]) /\ s' = s + 1 /\ UNCHANGED <<c, bad, nconf, drift>>
     ELSE /\ bad' = TRUE /\ drift' = IF Len(drift) >= 20 THEN drift ELSE Append(drift, Note("step not a model step"))
          /\ UNCHANGED <<vars, c, s, nconf>>
  ELSE IF Outcome = "err" /\ ENABLED FailStep
     THEN FailStep /\ UNCHANGED <<c, s, bad, nconf, drift>>
     ELSE /\ bad' = TRUE /\ drift' = IF Len(drift) >= 20 THEN drift ELSE Append(drift, Note("log ends while the model runs"))
          /\ UNCHANGED <<vars, c, s, nconf>>

TraceSpec == TraceInit /\ [][TraceNext]_tvars

\* the model-level invariants are evaluated on every state of every real run
TraceInv == (~bad /\ c <= NC) => (CountInv /\ NtsMirror)
\* the whole file was consumed; the summary is what the driver reads
AllDone == c > NC
Report == AllDone => /\ PrintT("CONFORMANCE " \o ToJson([cases |-> NC, conformant |-> nconf, drift |-> Len(drift)]))
                      /\ ndJsonSerialize(DriftFile, drift)
Consumed == TLCGet("stats").diameter >= 0 /\ TLCGet("distinct") >= 0
=======================================================================
