--------------------------- MODULE MC_Render ---------------------------
(* Model checking of the driver model (Render.tla) itself: for every tree of the generator's space (GenTrees,  *)
(* printed and read as the REF tree) the model-level form of C04 holds - both renderings succeed or fail       *)
(* together, the placeholders are as many as the parameters, and substituting the parameters (as inline         *)
(* constants) for the placeholders gives the inline text - except where the inline renderer prints a decimal   *)
(* range bound with %.2f (known finding C04-inline-decimal-rounding, visible in the model as well).            *)
(* One TLC state per tree.  Render.tla is bound to the real driver by JudgeTrees / JudgeSql (RENDER-DRIFT).    *)
EXTENDS Integers, Sequences, FiniteSets, TLC, Json
CONSTANTS CaseFile          \* the tree generator's output: one group per tree, cases[1].expect = the REF tree of its minimal print
VARIABLE k
RM == INSTANCE Render

Trees == ndJsonDeserialize(CaseFile)
TreeAt(j) == Trees[j].cases[1].expect

RECURSIVE HasDecimalBound(_)
IsDec(b) == b.op = "LIT" /\ b.ty = "float"
HasDecimalBound(T) ==
  CASE T.op \in {"LIT","WILD","REGEXP"} -> FALSE
    [] T.op = "RANGE" -> IsDec(T.lo) \/ IsDec(T.hi)
    [] T.op = "IN" -> FALSE
    [] T.op \in {"NOT","MUST","MUST_NOT","FUZZY","BOOST"} -> HasDecimalBound(T.l)
    [] OTHER -> HasDecimalBound(T.l) \/ HasDecimalBound(T.r)
Holes(s) == Cardinality({i \in 1..Len(s) : RM!Ch(s, i) = "?"})

ModelC04(T) == LET mi == RM!Inline(T)  mp == RM!Param(T) IN
               (mi.known /\ mp.known) =>
                 /\ mi.ok = mp.ok
                 /\ mi.ok => /\ Holes(mp.s) = Len(mp.params)
                             /\ (RM!Subst(mp.s, mp.params) = mi.s \/ HasDecimalBound(T))
\* the model never leaves a quote open: a string constant is delimited by single quotes and every quote inside is doubled
QuotesEven(T) == LET mi == RM!Inline(T) IN (mi.known /\ mi.ok) => Cardinality({i \in 1..Len(mi.s) : RM!Ch(mi.s, i) = "'"}) % 2 = 0

Init == k = 0
Next == k < Len(Trees) /\ k' = k + 1
Spec == Init /\ [][Next]_k
C04Model == k >= 1 => ModelC04(TreeAt(k))
QuoteModel == k >= 1 => QuotesEven(TreeAt(k))
\* not vacuous: some tree renders, and some does not (a ~ or ^ node has no render function)
Covered == k = Len(Trees) => PrintT("MC-RENDER " \o ToString(Len(Trees)))
=========================================================================
