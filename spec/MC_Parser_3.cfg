SPECIFICATION Spec
CONSTANTS
  Alphabet = {"word","quoted","wild","star","regexp","int","zint","nint","float",
              "EQUAL","GREATER","LESS","COLON","PLUS","MINUS","TILDE","CARROT","NOT","AND","OR",
              "RPAREN","LPAREN","LCURLY","RCURLY","TO","LSQUARE","RSQUARE","ERR"}
  MaxTok = 3
  DFs = {"", "df"}
INVARIANTS CountInv NtsMirror StepBound PopBound DerivesInv WellFormedInv NoBareInv
PROPERTIES Progress
