--------------------------- MODULE MC_Parser ---------------------------
(* Exhaustive exploration of the parser MECH over every token sequence up to MaxTok, with the   *)
(* REF predicates of C06/C10 evaluated on every accepted behaviour, and every completed         *)
(* behaviour emitted as one JSON line for replay into the real parser.                          *)
EXTENDS Parser, Json
G == INSTANCE Grammar

Toks == hist
DerivesInv    == status = "accept" => G!Derives(IF df = "" THEN result ELSE G!EraseDefault(result, df), Toks)
WellFormedInv == status = "accept" => G!WellFormed(result)
NoBareInv     == (status = "accept" /\ df # "") => G!NoBareTerm(result)
Emit == status \in {"accept"} =>
          PrintT("BEHAVIOUR " \o ToJson([toks |-> hist, df |-> df, tree |-> result, steps |-> steps, popped |-> popped]))
CountDone == status = "run" \/ TLCSet(1, TRUE)
========================================================================
