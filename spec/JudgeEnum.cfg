SPECIFICATION Spec
CONSTANTS
  ResFile = "res.ndjson"
  VerdictFile = "verdicts.ndjson"
  Prop = "C06"
INVARIANT Report
CHECK_DEADLOCK FALSE
