--------------------------- MODULE JudgeLexer ---------------------------
(* Verdicts for C16 (and the lexical halves of C09 / C01) on the REAL lexer's recorded calls, plus  *)
(* conformance of every recorded call with the Lexer MECH (drift, never a verdict).                 *)
(* One input line = one input (symbols) with two call schedules: a = Next only, b = with Peeks.     *)
EXTENDS Integers, Sequences, FiniteSets, TLC, Json
S  == INSTANCE Segmentation
KF == INSTANCE KnownFindings
LX == INSTANCE Lexer WITH Alphabet <- {}, MaxLen <- 0, MaxCalls <- 0, lx <- 0, inp0 <- 0, out <- 0, calls <- 0

CONSTANTS ResFile, VerdictFile, Prop, Shards
Lines == ndJsonDeserialize(ResFile)

RECURSIVE Flat(_,_)
Flat(ss, i) == IF i > Len(ss) THEN <<>> ELSE ss[i] \o Flat(ss, i + 1)
Fail(prop, c, clause, kf) == [prop |-> prop, id |-> c.id, q |-> c.inp, clause |-> clause, kf |-> kf]

\* ---- C16 -----------------------------------------------------------------------------------------
C16(c) ==
  LET a == S!Calls(c.a)  b == S!Calls(c.b) IN
     (IF S!Lossless(c.inp, a) THEN <<>> ELSE <<Fail("C16", c, "token stream is not a lossless segmentation of the input", "none")>>)
  \o (IF S!EofForever(a) /\ S!EofForever(b) THEN <<>> ELSE <<Fail("C16", c, "a token other than EOF follows the end or an error", "none")>>)
  \o (IF S!PeekIsNext(b) THEN <<>> ELSE <<Fail("C16", c, "Peek differs from the next Next", "none")>>)
  \o (IF S!PeekPure(b) /\ S!SameStream(a, b) THEN <<>> ELSE <<Fail("C16", c, "Peek changed the lexer or the stream", "none")>>)
  \o (IF S!HasLexError(a) => c.parse = "err" THEN <<>> ELSE <<Fail("C16", c, "Parse accepted an input with a lexical error", "none")>>)

\* ---- conformance with the Lexer MECH (replaying the schedule through DoNext / DoPeek) -------------
St(L) == <<L.pos, L.start, L.atEOF, Len(L.inp)>>
RECURSIVE Replay(_,_,_)
Replay(L, ks, i) ==
  IF i > Len(ks) THEN TRUE
  ELSE LET k == ks[i] IN
       IF k.c = "next"
       THEN LET L2 == LX!DoNext(L) IN
            L2.cur.typ = k.typ /\ L2.cur.s = k.s /\ L2.cur.e = k.e /\ St(L) = k.b /\ St(L2) = k.a /\ Replay(L2, ks, i + 1)
       ELSE LET t == LX!DoPeek(L) IN
            t.typ = k.typ /\ t.s = k.s /\ t.e = k.e /\ St(L) = k.b /\ St(L) = k.a /\ Replay(L, ks, i + 1)
Conforms(c) == Replay(LX!NewLexer(c.inp), S!Calls(c.a), 1) /\ Replay(LX!NewLexer(c.inp), S!Calls(c.b), 1)

\* ---- C09 (lexical half): whitespace at the boundaries of the original tokens and the letter case of
\* keywords change nothing: same outcome, and the identical tree when the original parses --------------
LastReal(a) == LET ts == S!Nexts(a)  n == S!FirstEnd(ts, 1) IN IF n <= 1 THEN 0 ELSE n - 1
C09(c) ==
  LET a == S!Calls(c.a)
      ts == S!Nexts(a)
      li == LastReal(a)
      lastTyp == IF li = 0 THEN "none" ELSE ts[li].typ
      lastTok == IF li = 0 THEN <<>> ELSE S!Text(c.inp, ts[li])
      atEnd == li # 0 /\ ts[li].e = Len(c.inp) /\ ts[S!FirstEnd(ts, 1)].typ = "EOF"
      kf(v) == IF KF!KF_C09_DanglingEscape(v.kind, lastTyp, lastTok, atEnd) THEN "C09-dangling-escape" ELSE "none"
      chk(v) == IF c.parse = "ok" /\ v.outcome # "ok" THEN <<Fail("C09", c, "layout variant rejected: " \o v.kind, kf(v))>>
                ELSE IF c.parse = "ok" /\ v.tree # c.tree THEN <<Fail("C09", c, "layout variant parses differently: " \o v.kind, kf(v))>>
                ELSE IF c.parse # "ok" /\ v.outcome = "ok" THEN <<Fail("C09", c, "layout variant accepted, original rejected: " \o v.kind, kf(v))>>
                ELSE <<>>
  IN Flat([i \in DOMAIN c.variants |-> chk(c.variants[i])], 1)

\* ---- C01 (byte level): every observable returns normally, no %! marker, linear parser work ------------
HasObs(r) == "obs" \in DOMAIN r
CallsOk(r) == ~HasObs(r) \/ \A k \in DOMAIN r.obs : r.obs[k].out \in {"ok","err"} /\ ~r.obs[k].marker
Work(r) == r.nsteps <= 3 * r.ntoks + 3 /\ r.attempts <= 16 * (r.ntoks + 1)
C01one(c, r, tag) == (IF r.outcome \in {"ok","err"} THEN <<>> ELSE <<Fail("C01", c, "Parse " \o r.outcome \o tag, "none")>>)
                  \o (IF CallsOk(r) THEN <<>> ELSE <<Fail("C01", c, "printer, encoder or renderer panicked or printed a %! marker" \o tag, "none")>>)
                  \o (IF Work(r) THEN <<>> ELSE <<Fail("C01", c, "parser work not linear in the tokens" \o tag, "none")>>)
C01(c) == C01one(c, c.res, "") \o C01one(c, c.resdf, " (default field)")
          \o (IF S!Lossless(c.inp, S!Calls(c.a)) THEN <<>> ELSE <<Fail("C01", c, "the lexer does not terminate with a well-formed stream", "none")>>)

\* ---- C10 (byte level): all-or-nothing results of Parse and of both renderers on arbitrary byte strings -------
Ok10(r) == r.outcome = "ok"
PShape(r) == IF Ok10(r) THEN ~r.e_nil /\ r.err_nil /\ r.validate_ok ELSE r.outcome = "err" /\ r.e_nil /\ ~r.err_nil
SShape(r) == ~HasObs(r) \/
             /\ (r.obs.sql.out = "ok" => ~r.obs.sql.empty) /\ (r.obs.sql.out = "err" => r.obs.sql.empty)
             /\ (r.obs.sqlp.out = "err" => r.obs.sqlp.empty)
               \* the same call made a second time (a memo or a pool must not change the result)
               /\ (r.obs.sql2.out = "ok" => ~r.obs.sql2.empty) /\ (r.obs.sql2.out = "err" => r.obs.sql2.empty)
               /\ (r.obs.sqlp2.out = "err" => r.obs.sqlp2.empty)
               /\ r.obs.sql2.out = r.obs.sql.out /\ r.obs.sqlp2.out = r.obs.sqlp.out
             /\ (~Ok10(r) => r.obs.sql.out = "err" /\ r.obs.sqlp.out = "err")
C10(c) == (IF PShape(c.res) /\ PShape(c.resdf) THEN <<>> ELSE <<Fail("C10", c, "Parse result shape", "none")>>)
       \o (IF SShape(c.res) /\ SShape(c.resdf) THEN <<>> ELSE <<Fail("C10", c, "renderer result shape (text returned together with an error, or empty text without one)", "none")>>)

Judge(c) == CASE Prop = "C16" -> C16(c) [] Prop = "C09" -> C09(c) [] Prop = "C01" -> C01(c) [] Prop = "C10" -> C10(c)

VARIABLES sh, n, last, fails, kfs, nfail, nkf, judged, nconf, drift
vars == <<sh, n, last, fails, kfs, nfail, nkf, judged, nconf, drift>>
Open(f)  == SelectSeq(f, LAMBDA v : v.kf = "none")
Known(f) == SelectSeq(f, LAMBDA v : v.kf # "none")
Init == sh \in 0..(Shards - 1) /\ n = sh /\ last = <<>> /\ fails = <<>> /\ kfs = <<>> /\ nfail = 0 /\ nkf = 0 /\ judged = 0
        /\ nconf = 0 /\ drift = <<>>
Next == /\ n < Len(Lines) + Shards /\ n' = n + Shards /\ UNCHANGED sh
        /\ last' = IF n < Len(Lines) THEN Judge(Lines[n + 1]) ELSE <<>>
        /\ fails' = IF Len(fails) >= 100 THEN fails ELSE fails \o Open(last)
        /\ kfs' = IF Len(kfs) >= 100 THEN kfs ELSE kfs \o Known(last)
        /\ nfail' = nfail + Len(Open(last)) /\ nkf' = nkf + Len(Known(last))
        /\ judged' = judged + (IF n < Len(Lines) THEN 1 ELSE 0)
        /\ IF n < Len(Lines) /\ ~Conforms(Lines[n + 1])
           THEN nconf' = nconf /\ drift' = IF Len(drift) >= 10 THEN drift ELSE Append(drift, [id |-> Lines[n + 1].id, inp |-> Lines[n + 1].inp])
           ELSE nconf' = nconf + (IF n < Len(Lines) THEN 1 ELSE 0) /\ UNCHANGED drift
Spec == Init /\ [][Next]_vars
Report == n >= Len(Lines) + Shards =>
            /\ PrintT("JUDGED " \o ToJson([prop |-> Prop, shard |-> sh, judged |-> judged, failures |-> nfail, known |-> nkf,
                                           conformant |-> nconf, drift |-> Len(drift)]))
            /\ ndJsonSerialize(VerdictFile \o "." \o ToString(sh), fails \o kfs)
            /\ ndJsonSerialize("drift.ndjson", drift)
=========================================================================
