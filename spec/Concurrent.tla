--------------------------- MODULE Concurrent ---------------------------
(* C14: the package as used by several goroutines.  By design there is no shared mutable state: the package *)
(* level driver and the global tables are read-only after initialisation, and expressions passed to the      *)
(* renderers / printers / encoder are only read.  The specification says exactly that: a call begins, later   *)
(* ends with the result the same call has in a sequential run, and the shared state (driver tables + shared   *)
(* expression values, observed as a digest) never changes.  There is no action for a data-race report, so a   *)
(* trace containing one is not a behaviour of this specification.                                             *)
EXTENDS Integers, Sequences, FiniteSets, TLC

CONSTANTS G,          \* goroutines
          Calls,      \* the calls that can be made (kind + argument, as an id)
          SeqResult,  \* call -> result digest in a sequential run
          Shared0,    \* digest of the shared state before anything runs
          Broken      \* TRUE = a deliberately wrong variant in which a call writes the shared state (non-vacuity)

VARIABLES pc,      \* goroutine -> "idle" | "running"
          cur,     \* goroutine -> call being executed
          shared,  \* digest of the shared state
          done,    \* goroutine -> its most recently completed call and result ("none" before the first)
          ndone    \* number of completed calls
cvars == <<pc, cur, shared, done, ndone>>

NoCall == [call |-> "none", res |-> "none"]
Init == /\ pc = [g \in G |-> "idle"] /\ cur = [g \in G |-> "none"] /\ shared = Shared0
        /\ done = [g \in G |-> NoCall] /\ ndone = 0
Begin(g, c) == /\ pc[g] = "idle" /\ pc' = [pc EXCEPT ![g] = "running"] /\ cur' = [cur EXCEPT ![g] = c]
               /\ UNCHANGED <<shared, done, ndone>>
\* the linearisation point of a pure call is anywhere between Begin and End: its result depends on nothing shared
End(g) == /\ pc[g] = "running" /\ pc' = [pc EXCEPT ![g] = "idle"] /\ cur' = [cur EXCEPT ![g] = "none"]
          /\ done' = [done EXCEPT ![g] = [call |-> cur[g], res |-> IF Broken /\ shared # Shared0 THEN "dirty" ELSE SeqResult[cur[g]]]]
          /\ ndone' = ndone + 1
          /\ shared' = IF Broken THEN "scribbled" ELSE shared
Next == \E g \in G : (\E c \in Calls : Begin(g, c)) \/ End(g)
Spec == Init /\ [][Next]_cvars

\* every completed call returned what the same call returns in a sequential run (checked in the state right after it completes)
Deterministic   == \A g \in G : done[g] = NoCall \/ done[g].res = SeqResult[done[g].call]
SharedUnchanged == shared = Shared0
=========================================================================
