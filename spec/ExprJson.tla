---------------------------- MODULE ExprJson ----------------------------
(* MECH: what decoding the JSON encoding of an expression gives back (pkg/lucene/expr/expression.go          *)
(* MarshalJSON / UnmarshalJSON / unmarshalLiteral / literalToExpr / toIntIfNecessary), at the level of the     *)
(* tree records.  The encoder writes the operator name, the children, and for leaves only the bare value;      *)
(* the decoder re-infers a leaf's kind from the value's text, so the structure comes back unchanged and every  *)
(* leaf comes back as DecLeaf says.  The textual facts a decision depends on are the leaf profiles recorded    *)
(* by the harness (has_wild: contains * or ?, slashed: starts and ends with /, intvalued: float64 with an      *)
(* integer value), listed in the order Leaves() enumerates the leaves.                                         *)
EXTENDS Integers, Sequences

JLeafOps == {"LIT","WILD","REGEXP"}
\* expression.go:478 literalToExpr on the decoded value; :559 toIntIfNecessary; strconv.Atoi before ParseFloat
DecLeaf(leaf, p) ==
  IF leaf.ty = "col" THEN leaf                                            \* re-wrapped by wrapInColumn whatever it looks like
  ELSE IF leaf.ty = "str" THEN
         [leaf EXCEPT !.op = IF p.slashed THEN "REGEXP" ELSE IF p.has_wild THEN "WILD" ELSE "LIT"]
  ELSE IF leaf.ty = "float" /\ leaf.v = "-0" THEN [leaf EXCEPT !.ty = "int", !.v = "0"]   \* -0.0 is written as -0, Atoi reads 0
  ELSE IF leaf.ty = "float" /\ p.intvalued THEN [leaf EXCEPT !.ty = "int"] \* 5.0 is written as 5 and read as an int
  ELSE leaf

\* expression.go:394-406 - the bounds of a range are decoded into untyped fields, so a number has been a float64 before
\* toIntIfNecessary looks at it (p.f64ty, p.f64v: the sensor's float64 arithmetic; TLC has no 64-bit numbers)
DecBound(leaf, p) == IF leaf.op = "LIT" /\ leaf.ty \in {"int","float"} THEN [leaf EXCEPT !.ty = p.f64ty, !.v = p.f64v]
                     ELSE DecLeaf(leaf, p)
DecB(T, ps, k) == IF T.op \in JLeafOps THEN DecBound(T, ps[k + 1]) ELSE [op |-> "BAD", why |-> "range bound is not a leaf"]

\* number of leaves of a subtree, in the order the harness lists the profiles (left, right; list items; range bounds)
RECURSIVE NL(_)
NL(T) == CASE T.op \in JLeafOps -> 1
           [] T.op \in {"NOT","MUST","MUST_NOT","FUZZY","BOOST"} -> NL(T.l)
           [] T.op = "RANGE" -> NL(T.l) + NL(T.lo) + NL(T.hi)
           [] T.op = "IN" -> NL(T.l) + Len(T.items)
           [] OTHER -> NL(T.l) + NL(T.r)

\* DecEnc(T, ps, k): the decoded tree, the profiles of T's leaves being ps[k+1 ..]
RECURSIVE DecEnc(_,_,_)
DecEnc(T, ps, k) ==
  CASE T.op \in JLeafOps -> DecLeaf(T, ps[k + 1])
    [] T.op \in {"NOT","MUST","MUST_NOT","FUZZY","BOOST"} -> [T EXCEPT !.l = DecEnc(T.l, ps, k)]
    [] T.op = "RANGE" -> [T EXCEPT !.l = DecEnc(T.l, ps, k), !.lo = DecB(T.lo, ps, k + NL(T.l)),
                                   !.hi = DecB(T.hi, ps, k + NL(T.l) + NL(T.lo))]
    [] T.op = "IN" -> [T EXCEPT !.l = DecEnc(T.l, ps, k),
                                !.items = [i \in DOMAIN T.items |-> DecLeaf(T.items[i], ps[k + NL(T.l) + i])]]
    [] OTHER -> [T EXCEPT !.l = DecEnc(T.l, ps, k), !.r = DecEnc(T.r, ps, k + NL(T.l))]
RoundTripped(T, ps) == IF Len(ps) = NL(T) THEN DecEnc(T, ps, 0) ELSE [op |-> "BAD", why |-> "profile count"]
=========================================================================
