------------------------- MODULE KnownFindings -------------------------
(* KF: signatures of the defects recorded in /verif/known_findings.json.  A signature is a predicate *)
(* over one failing case, as narrow as the call site that causes it, so that a different violation  *)
(* of the same property is not covered.  Nothing here is evaluated unless a REF clause failed.      *)
EXTENDS Integers, Sequences
GK == INSTANCE Grammar

\* ---- C11-list-form ---------------------------------------------------------------------------
\* With a default field the `or` reducer scopes the items of field:(a OR b) before `equal` can
\* recognise the value list (reduce.go or/equal), so the IN(LIST) form becomes EQUALS(field, OR-chain).
\* Signature: the erased tree differs from the tree without the option ONLY in that value lists
\* are OR-chains of the same plain items under EQUALS.
RECURSIVE ChainItems(_)
ChainItems(T) == IF T.op = "LIT" THEN <<T>>
                 ELSE IF T.op = "OR" THEN ChainItems(T.l) \o ChainItems(T.r)
                 ELSE <<[op |-> "NOLIT"]>>
IsPlainChain(T) == T.op = "OR" /\ \A i \in DOMAIN ChainItems(T) : ChainItems(T)[i].op = "LIT"
RECURSIVE ListNorm(_)
ListNorm(T) ==
  CASE T.op \in {"LIT","WILD","REGEXP"} -> T
    [] T.op = "EQUALS" /\ IsPlainChain(T.r) -> [op |-> "IN", l |-> T.l, items |-> ChainItems(T.r)]
    [] T.op \in {"EQUALS","LIKE","GREATER","LESS","GREATER_EQ","LESS_EQ","AND","OR"} ->
          [T EXCEPT !.l = ListNorm(T.l), !.r = ListNorm(T.r)]
    [] T.op \in {"NOT","MUST","MUST_NOT","FUZZY","BOOST"} -> [T EXCEPT !.l = ListNorm(T.l)]
    [] OTHER -> T
KF_C11_ListForm(treeDf, treeNo, df) == ListNorm(GK!EraseDefault(treeDf, df)) = treeNo

\* ---- C09-dangling-escape ----------------------------------------------------------------------
\* A bare word whose last character is a backslash that escapes nothing (the input ends there) takes
\* whitespace appended to the input as the escaped character (lex.go lexWord: the escape skips the next
\* rune), so "foo\\" and "foo\\ " parse to different values.  Signature: the variant only adds trailing
\* whitespace after an input whose final token is a word ending in an unpaired backslash.
RECURSIVE Dangling(_,_)
Dangling(w, i) == IF i > Len(w) THEN FALSE
                  ELSE IF w[i] = "BS" THEN (IF i = Len(w) THEN TRUE ELSE Dangling(w, i + 2))
                  ELSE Dangling(w, i + 1)
\* lastTok = symbols of the last token of the original input; endsAtEnd = it ends where the input ends
KF_C09_DanglingEscape(kind, lastTyp, lastTok, endsAtEnd) ==
  kind \in {"trail","all"} /\ lastTyp = "LITERAL" /\ endsAtEnd /\ Dangling(lastTok, 1)
========================================================================
