------------------------- MODULE KnownFindings -------------------------
(* KF: signatures of the defects recorded in /verif/known_findings.json.  A signature is a predicate *)
(* over one failing case, as narrow as the call site that causes it, so that a different violation  *)
(* of the same property is not covered.  Nothing here is evaluated unless a REF clause failed.      *)
EXTENDS Integers, Sequences
GK == INSTANCE Grammar

\* ---- C11-list-form ---------------------------------------------------------------------------
\* With a default field the `or` reducer scopes the items of field:(a OR b) before `equal` can
\* recognise the value list (reduce.go or/equal), so the IN(LIST) form becomes EQUALS(field, OR-chain).
\* Signature: the erased tree differs from the tree without the option ONLY in that value lists
\* are OR-chains of the same plain items under EQUALS.
RECURSIVE ChainItems(_)
ChainItems(T) == IF T.op = "LIT" THEN <<T>>
                 ELSE IF T.op = "OR" THEN ChainItems(T.l) \o ChainItems(T.r)
                 ELSE <<[op |-> "NOLIT"]>>
IsPlainChain(T) == T.op = "OR" /\ \A i \in DOMAIN ChainItems(T) : ChainItems(T)[i].op = "LIT"
RECURSIVE ListNorm(_)
ListNorm(T) ==
  CASE T.op \in {"LIT","WILD","REGEXP"} -> T
    [] T.op = "EQUALS" /\ IsPlainChain(T.r) -> [op |-> "IN", l |-> T.l, items |-> ChainItems(T.r)]
    [] T.op \in {"EQUALS","LIKE","GREATER","LESS","GREATER_EQ","LESS_EQ","AND","OR"} ->
          [T EXCEPT !.l = ListNorm(T.l), !.r = ListNorm(T.r)]
    [] T.op \in {"NOT","MUST","MUST_NOT","FUZZY","BOOST"} -> [T EXCEPT !.l = ListNorm(T.l)]
    [] OTHER -> T
KF_C11_ListForm(treeDf, treeNo, df) == ListNorm(GK!EraseDefault(treeDf, df)) = treeNo

\* ---- C09-dangling-escape ----------------------------------------------------------------------
\* A bare word whose last character is a backslash that escapes nothing (the input ends there) takes
\* whitespace appended to the input as the escaped character (lex.go lexWord: the escape skips the next
\* rune), so "foo\\" and "foo\\ " parse to different values.  Signature: the variant only adds trailing
\* whitespace after an input whose final token is a word ending in an unpaired backslash.
RECURSIVE Dangling(_,_)
Dangling(w, i) == IF i > Len(w) THEN FALSE
                  ELSE IF w[i] = "BS" THEN (IF i = Len(w) THEN TRUE ELSE Dangling(w, i + 2))
                  ELSE Dangling(w, i + 1)
\* lastTok = symbols of the last token of the original input; endsAtEnd = it ends where the input ends
KF_C09_DanglingEscape(kind, lastTyp, lastTok, endsAtEnd) ==
  kind \in {"trail","all"} /\ lastTyp = "LITERAL" /\ endsAtEnd /\ Dangling(lastTok, 1)

\* ---- C03 / C04: range rendering (pkg/driver/renderfn.go rang / rangParam) ------------------------------
\* Each signature names the cause in the query (ref) AND the wrong shape observed in PostgreSQL's reading
\* of the inline SQL (ast), so the same input failing in another way is not covered.
IsStr(v) == v.ty = "str"
IsNum(v) == v.ty \in {"int","float"}
\* string bounds with an exclusive bracket are rendered as BETWEEN lo AND hi (inclusive); pinned by the repo's tests
KF_C03_StrRangeExclusive(ref, ast) ==
  ref.form = "range" /\ IsStr(ref.lo) /\ IsStr(ref.hi) /\ ~(ref.loinc /\ ref.hiinc)
  /\ ast.k = "between" /\ ast.lo.k = "const" /\ ast.lo.codes = ref.lo.codes /\ ast.hi.k = "const" /\ ast.hi.codes = ref.hi.codes
\* a string range with an open end is rendered as BETWEEN with the constant '*'; pinned by the repo's tests
KF_C03_StrRangeOpen(ref, ast) ==
  ref.form = "range" /\ ((IsStr(ref.lo) /\ ref.hi.ty = "star") \/ (ref.lo.ty = "star" /\ IsStr(ref.hi)))
  /\ ast.k = "between" /\ ((ast.lo.k = "const" /\ ast.lo.codes = <<42>>) \/ (ast.hi.k = "const" /\ ast.hi.codes = <<42>>))
\* decimal bounds are printed with %.2f: a bound with more than two decimals is rounded
ConstsOf(ast) == IF ast.k = "cmp" THEN {ast.r} ELSE IF ast.k = "bool" THEN {ast.args[i].r : i \in DOMAIN ast.args} ELSE {}
KF_C03_DecimalRounding(ref, ast) ==
  ref.form = "range" /\ (\E b \in {ref.lo, ref.hi} : b.ty = "float" /\ b.dp > 2)
  /\ ast.k \in {"cmp","bool"} /\ (ast.k = "bool" => ast.op = "AND" /\ \A i \in DOMAIN ast.args : ast.args[i].k = "cmp")
  /\ \E b \in {ref.lo, ref.hi} : b.ty = "float" /\ b.dp > 2 /\ \E c \in ConstsOf(ast) : c.k = "const" /\ c.n # b.n /\ (c.n - b.n) \in -5000..5000
\* [* TO *] is rendered as <= 0 (toInts yields 0 for both ends and the first special case fires)
KF_C03_StarStar(ref, ast) ==
  ref.form = "range" /\ ref.lo.ty = "star" /\ ref.hi.ty = "star"
  /\ ast.k = "cmp" /\ ast.op \in {"<=","<"} /\ ast.r.k = "const" /\ ast.r.n = 0
\* one Inclusive flag for both ends (expr.RangeBoundary): [a TO b} and {a TO b] are rendered with both ends exclusive
KF_C03_MixedBrackets(ref, ast) ==
  ref.form = "range" /\ ref.loinc # ref.hiinc /\ IsNum(ref.lo) /\ IsNum(ref.hi)
  /\ ast.k = "bool" /\ ast.op = "AND" /\ Len(ast.args) = 2 /\ ast.args[1].k = "cmp" /\ ast.args[2].k = "cmp"
  /\ ast.args[1].op = ">" /\ ast.args[2].op = "<"
\* a mixed-bracket range with one open end: the closed end is rendered exclusive although its bracket is inclusive
KF_C03_MixedBracketsOpen(ref, ast) ==
  ref.form = "range" /\ ref.loinc # ref.hiinc /\ ((IsNum(ref.lo) /\ ref.hi.ty = "star" /\ ref.loinc) \/ (ref.lo.ty = "star" /\ IsNum(ref.hi) /\ ref.hiinc))
  /\ ast.k = "cmp" /\ ast.op \in {">","<"}
\* `_` in a wildcard pattern reaches SIMILAR TO unescaped, where it matches any one character
KF_C03_UnderscorePattern(ref, ast) ==
  ref.form = "like" /\ (\E i \in DOMAIN ref.pat.codes : ref.pat.codes[i] = 95)
  /\ ast.k = "similar" /\ ast.pat.k = "const" /\ \E i \in DOMAIN ast.pat.codes : ast.pat.codes[i] = 95
\* rang() splits the serialized bounds on "," - a string bound containing a comma makes the renderer fail
KF_C03_CommaBound(ref, out) ==
  ref.form = "range" /\ out = "err" /\ \E b \in {ref.lo, ref.hi} : b.ty = "str" /\ \E i \in DOMAIN b.codes : b.codes[i] = 44

\* ---- C02-long-identifier --------------------------------------------------------------------------------
\* PostgreSQL truncates identifiers to 63 bytes (NAMEDATALEN-1), the renderer quotes a field name of any
\* length (base.go serialize Column): the column referenced is the 63-byte prefix of the field name.
KF_C02_LongName(fields, cols) ==
  \A col \in cols \ fields : \E f \in fields : Len(f) > 63 /\ col = SubSeq(f, 1, 63)

\* ---- C04-mixed-kind-range -------------------------------------------------------------------------------
\* An exclusive range whose lower bound is a number and whose upper bound is a string: rang() (inline) falls
\* through to the string case and renders an inclusive BETWEEN, rangParam() looks at the kind of the FIRST
\* parameter only and renders exclusive numeric comparisons.  Signature on the two ASTs and the parameters.
MixedShape(inl, par) ==
  /\ inl.k = "between" /\ inl.lo.k = "const" /\ inl.lo.ty # "str" /\ inl.hi.k = "const" /\ inl.hi.ty = "str"
  /\ par.k = "bool" /\ par.op = "AND" /\ Len(par.args) = 2 /\ par.args[1].k = "cmp" /\ par.args[1].op = ">"
  /\ par.args[2].k = "cmp" /\ par.args[2].op = "<"
\* the same pair of shapes at the same place of the two ASTs (the range may be the value of a field group, f:<(g:{1 TO z}))
RECURSIVE MixedAt(_,_)
MixedAt(inl, par) ==
  \/ MixedShape(inl, par)
  \/ /\ inl.k = "cmp" /\ par.k = "cmp" /\ inl.op = par.op
     /\ (MixedAt(inl.l, par.l) \/ MixedAt(inl.r, par.r))
  \/ /\ inl.k = "bool" /\ par.k = "bool" /\ inl.op = par.op /\ Len(inl.args) = Len(par.args)
     /\ \E i \in DOMAIN inl.args : MixedAt(inl.args[i], par.args[i])
KF_C04_MixedKindRange(inl, par, params) ==
  /\ MixedAt(inl, par)
  /\ \E i \in 1..(Len(params) - 1) : params[i].ty # "str" /\ params[i + 1].ty = "str"

\* ---- C04-numeric-field-range ------------------------------------------------------------------------------
\* A number in field position (1:[1 TO 2]) is not a column but a literal, so RenderParam turns it into a
\* placeholder; rangParam then writes that placeholder twice (>= and <=) while its value is in the parameter
\* list once: one more placeholder than parameters.  Signature: exactly that shape.
KF_C04_NumericFieldRange(par, params, nplace) ==
  /\ nplace = Len(params) + 1 /\ Len(params) >= 2 /\ params[1].ty # "str"
  /\ par.k = "bool" /\ par.op = "AND" /\ Len(par.args) = 2
  /\ par.args[1].k = "cmp" /\ par.args[1].l.k = "param" /\ par.args[2].k = "cmp" /\ par.args[2].l.k = "param"

\* ---- C12-negative-zero, C12-big-int-range-bound -------------------------------------------------------------
\* -0.0 is encoded as -0 and decoded as the int 0 (strconv.Atoi accepts "-0"), so the re-encoding differs.
\* An integer range bound travels through json.Unmarshal into `any` (float64) and toIntIfNecessary, so integers
\* beyond 2^53 (16 digits and more) lose their low digits; list items and plain values use Atoi and are exact.
NegZero(l) == l.op = "LIT" /\ l.ty = "float" /\ l.v = "-0"
RECURSIVE HasNegZero(_)
HasNegZero(T) ==
  CASE T.op \in {"LIT","WILD","REGEXP"} -> NegZero(T)
    [] T.op \in {"NOT","MUST","MUST_NOT","FUZZY","BOOST"} -> HasNegZero(T.l)
    [] T.op = "RANGE" -> NegZero(T.lo) \/ NegZero(T.hi)
    [] T.op = "IN" -> \E i \in DOMAIN T.items : NegZero(T.items[i])
    [] T.op = "BAD" -> FALSE
    [] OTHER -> HasNegZero(T.l) \/ HasNegZero(T.r)
KF_C12_NegativeZero(tree) == HasNegZero(tree)
RECURSIVE HasBigBound(_)
BigInt(l) == l.op = "LIT" /\ l.ty = "int" /\ Len(l.v) >= 16
HasBigBound(T) ==
  CASE T.op \in {"LIT","WILD","REGEXP","BAD","IN"} -> FALSE
    [] T.op \in {"NOT","MUST","MUST_NOT","FUZZY","BOOST"} -> HasBigBound(T.l)
    [] T.op = "RANGE" -> BigInt(T.lo) \/ BigInt(T.hi)
    [] OTHER -> HasBigBound(T.l) \/ HasBigBound(T.r)
KF_C12_BigIntBound(tree) == HasBigBound(tree)
========================================================================
