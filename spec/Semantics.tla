--------------------------- MODULE Semantics ---------------------------
(* REF: what a query means on a row (C03).  Leaf level: ref records written by GenSql; structure level: *)
(* the expected trees of GenTrees evaluated over a valuation of their columns.                          *)
EXTENDS Integers, Sequences, FiniteSets, TLC
Q == INSTANCE Sql

\* a query-side value as a row-comparable value
ValOf(v) == IF v.ty = "str" THEN Q!Str(v.codes) ELSE Q!Num(v.n)

\* Lucene wildcards on byte codes: 42 = * (any run)  63 = ? (any one character)
RECURSIVE Match(_,_)
Match(p, s) == IF p = <<>> THEN s = <<>>
               ELSE IF Head(p) = 92 /\ Len(p) >= 2 THEN s # <<>> /\ Head(s) = p[2] /\ Match(SubSeq(p, 3, Len(p)), Tail(s))   \* \c : the character c itself
               ELSE IF Head(p) = 42 THEN \E k \in 0..Len(s) : Match(Tail(p), SubSeq(s, k + 1, Len(s)))
               ELSE s # <<>> /\ (Head(p) = 63 \/ Head(p) = Head(s)) /\ Match(Tail(p), Tail(s))

\* a leaf predicate on the value x of its field
EvalRef(r, x) ==
  CASE r.form = "cmp"   -> Q!Cmp(r.op, x, ValOf(r.v))
    [] r.form = "range" -> /\ (r.lo.ty = "star" \/ Q!Cmp(IF r.loinc THEN ">=" ELSE ">", x, ValOf(r.lo)))
                           /\ (r.hi.ty = "star" \/ Q!Cmp(IF r.hiinc THEN "<=" ELSE "<", x, ValOf(r.hi)))
    [] r.form = "list"  -> \E i \in DOMAIN r.items : Q!Cmp("=", x, ValOf(r.items[i]))
    [] r.form = "like"  -> Match(r.pat.codes, x.codes)
    [] OTHER -> FALSE

\* ---- structure level: the expected trees of GenTrees over a valuation of their columns ----------------
\* leaf constants are texts of the generator's pools: integers are spelled ToString(k)
NumOf(text) == (CHOOSE k \in 0..400 : ToString(k) = text) * 1000000
LeafVal(l) == IF l.ty = "int" THEN [ty |-> "num", n |-> NumOf(l.v), text |-> ""] ELSE [ty |-> "str", n |-> 0, text |-> l.v]
RECURSIVE EvalTree(_,_)
EvalTree(T, row) ==
  CASE T.op = "EQUALS"     -> Q!TCmp("=", row[T.l.v], LeafVal(T.r))
    [] T.op = "GREATER"    -> Q!TCmp(">", row[T.l.v], LeafVal(T.r))
    [] T.op = "GREATER_EQ" -> Q!TCmp(">=", row[T.l.v], LeafVal(T.r))
    [] T.op = "LESS"       -> Q!TCmp("<", row[T.l.v], LeafVal(T.r))
    [] T.op = "LESS_EQ"    -> Q!TCmp("<=", row[T.l.v], LeafVal(T.r))
    [] T.op = "RANGE"      -> Q!TCmp(IF T.inc THEN ">=" ELSE ">", row[T.l.v], LeafVal(T.lo)) /\ Q!TCmp(IF T.inc THEN "<=" ELSE "<", row[T.l.v], LeafVal(T.hi))
    [] T.op = "IN"         -> \E i \in DOMAIN T.items : Q!TCmp("=", row[T.l.v], LeafVal(T.items[i]))
    [] T.op = "AND"        -> EvalTree(T.l, row) /\ EvalTree(T.r, row)
    [] T.op = "OR"         -> EvalTree(T.l, row) \/ EvalTree(T.r, row)
    [] T.op \in {"NOT","MUST_NOT"} -> ~EvalTree(T.l, row)
    [] T.op = "MUST"       -> EvalTree(T.l, row)
    [] OTHER -> FALSE
\* the leaves of a tree (each is scoped to its own column, because terms are numbered)
RECURSIVE LeavesOf(_)
LeavesOf(T) == CASE T.op \in {"AND","OR"} -> LeavesOf(T.l) \o LeavesOf(T.r)
                 [] T.op \in {"NOT","MUST","MUST_NOT"} -> LeavesOf(T.l)
                 [] OTHER -> <<T>>
\* probe values of a leaf's column: every region its constants cut out (wide) or one true / one false value (narrow)
Shift(v, d) == [v EXCEPT !.n = v.n + d * 1000000]
OtherStr == [ty |-> "str", n |-> 0, text |-> "zz-other"]
ProbeOf(L, wide) ==
  CASE L.op = "EQUALS" -> IF L.r.ty = "int" THEN <<LeafVal(L.r), Shift(LeafVal(L.r), 1)>> ELSE <<LeafVal(L.r), OtherStr>>
    [] L.op \in {"GREATER","GREATER_EQ","LESS","LESS_EQ"} ->
         IF wide THEN <<Shift(LeafVal(L.r), -1), LeafVal(L.r), Shift(LeafVal(L.r), 1)>> ELSE <<Shift(LeafVal(L.r), -1), Shift(LeafVal(L.r), 1)>>
    [] L.op = "RANGE" -> IF wide THEN <<Shift(LeafVal(L.lo), -1), LeafVal(L.lo), LeafVal(L.hi), Shift(LeafVal(L.hi), 1)>>
                         ELSE <<LeafVal(L.lo), Shift(LeafVal(L.hi), 1)>>
    [] L.op = "IN" -> <<LeafVal(L.items[1]), LeafVal(L.items[2]), IF L.items[1].ty = "int" THEN Shift(LeafVal(L.items[1]), 100) ELSE OtherStr>>
    [] OTHER -> <<OtherStr>>
\* all rows: one probe value per leaf column
RECURSIVE RowsOf(_,_,_)
RowsOf(ls, i, wide) ==
  IF i > Len(ls) THEN {<<>>}
  ELSE LET rest == RowsOf(ls, i + 1, wide)  pv == ProbeOf(ls[i], wide) IN
       {(ls[i].l.v :> pv[k]) @@ r : k \in DOMAIN pv, r \in rest}
\* up to 4 leaves: every region of every column; up to 8: one true / one false value per column (2^n rows);
\* beyond that 200 seeded random rows of that kind
RandRow(ls) == LET pick(i) == ProbeOf(ls[i], FALSE)[RandomElement(1..2)] IN
               [c \in {ls[i].l.v : i \in DOMAIN ls} |-> pick(CHOOSE i \in DOMAIN ls : ls[i].l.v = c)]
Rows(T) == LET ls == LeavesOf(T) IN
           IF Len(ls) <= 8 THEN RowsOf(ls, 1, Len(ls) <= 4) ELSE {RandRow(ls) : k \in 1..200}
Filterable(T) == \A i \in DOMAIN LeavesOf(T) : LeavesOf(T)[i].op \in {"EQUALS","GREATER","GREATER_EQ","LESS","LESS_EQ","RANGE","IN"}
=========================================================================
