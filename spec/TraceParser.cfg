SPECIFICATION TraceSpec
CONSTANTS
  Alphabet = {}
  MaxTok = 0
  DFs = {""}
  TraceFile = "trace.ndjson"
  DriftFile = "drift.ndjson"
INVARIANTS TraceInv Report
CHECK_DEADLOCK FALSE
