------------------------ MODULE ConcurrentProof ------------------------
(* TLAPS proof, for any number of goroutines and calls, of what MC_Concurrent checks for small constants:  *)
(* in the faithful variant (Broken = FALSE) every completed call has its sequential result and the shared   *)
(* state never changes.  Checked with tlapm (bin/prove).                                                    *)
EXTENDS Concurrent, TLAPS

ASSUME Faithful == Broken = FALSE

Inv == /\ pc \in [G -> {"idle", "running"}]
       /\ cur \in [G -> Calls \cup {"none"}]
       /\ done \in [G -> [call : Calls \cup {"none"}, res : {SeqResult[c] : c \in Calls} \cup {"none"}]]
       /\ \A g \in G : pc[g] = "running" => cur[g] \in Calls
       /\ Deterministic
       /\ SharedUnchanged

LEMMA InitInv == Init => Inv
  BY DEF Init, Inv, Deterministic, SharedUnchanged, NoCall

LEMMA NextInv == Inv /\ [Next]_cvars => Inv'
<1> SUFFICES ASSUME Inv, [Next]_cvars PROVE Inv'
  OBVIOUS
<1>1. CASE UNCHANGED cvars
  BY <1>1 DEF Inv, cvars, Deterministic, SharedUnchanged, NoCall
<1>2. ASSUME NEW g \in G, NEW c \in Calls, Begin(g, c) PROVE Inv'
  BY <1>2 DEF Inv, Begin, Deterministic, SharedUnchanged, NoCall
<1>3. ASSUME NEW g \in G, End(g) PROVE Inv'
  BY <1>3, Faithful DEF Inv, End, Deterministic, SharedUnchanged, NoCall
<1> QED
  BY <1>1, <1>2, <1>3 DEF Next

THEOREM Safety == Spec => [](Deterministic /\ SharedUnchanged)
<1>1. Inv => Deterministic /\ SharedUnchanged
  BY DEF Inv
<1> QED
  BY InitInv, NextInv, <1>1, PTL DEF Spec
=========================================================================
