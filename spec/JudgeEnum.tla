--------------------------- MODULE JudgeEnum ---------------------------
(* Verdicts for C01 (parser part), C06, C10, C11 on what the REAL code returned for token sequences *)
(* (harness parse-enum / parse-texts).  One input line = one text parsed without (res) and with    *)
(* (resdf) a default field, together with the real lexer's tokens classified by what they denote.  *)
EXTENDS Integers, Sequences, FiniteSets, TLC, Json
G  == INSTANCE Grammar
KF == INSTANCE KnownFindings
RT == INSTANCE RoundTrip
EJ == INSTANCE ExprJson

CONSTANTS ResFile, VerdictFile, Prop, Shards
Lines == ndJsonDeserialize(ResFile)

Ok(r) == r.outcome = "ok"
Fail(prop, c, clause, kf) == [prop |-> prop, id |-> c.id, q |-> c.q, clause |-> clause, kf |-> kf]

\* C06: an accepted tree is a derivation of the typed token sequence (default-field scoping erased)
C06(c) == (IF Ok(c.res) /\ ~G!Derives(c.res.tree, c.toks) THEN <<Fail("C06", c, "tree is not a derivation of the tokens", "none")>> ELSE <<>>)
       \o (IF Ok(c.resdf) /\ ~G!Derives(G!EraseDefault(c.resdf.tree, c.df), c.toks)
           THEN <<Fail("C06", c, "tree (default field) is not a derivation of the tokens", "none")>> ELSE <<>>)

\* C10: all-or-nothing results; Validate and the independent shape check; renderer result shapes
Shape(r) == IF Ok(r) THEN ~r.e_nil /\ r.err_nil /\ r.validate_ok /\ G!WellFormed(r.tree)
            ELSE r.outcome = "err" /\ r.e_nil /\ ~r.err_nil
HasObs(r) == "obs" \in DOMAIN r
SqlShape(r) == ~HasObs(r) \/
               /\ (r.obs.sql.out = "ok" => ~r.obs.sql.empty) /\ (r.obs.sql.out = "err" => r.obs.sql.empty)
               /\ (r.obs.sqlp.out = "err" => r.obs.sqlp.empty)
               \* the same call made a second time (a memo or a pool must not change the result)
               /\ (r.obs.sql2.out = "ok" => ~r.obs.sql2.empty) /\ (r.obs.sql2.out = "err" => r.obs.sql2.empty)
               /\ (r.obs.sqlp2.out = "err" => r.obs.sqlp2.empty)
               /\ r.obs.sql2.out = r.obs.sql.out /\ r.obs.sqlp2.out = r.obs.sqlp.out
               /\ (~Ok(r) => r.obs.sql.out = "err" /\ r.obs.sqlp.out = "err")
C10(c) == (IF Shape(c.res) THEN <<>> ELSE <<Fail("C10", c, "Parse result shape", "none")>>)
       \o (IF Shape(c.resdf) THEN <<>> ELSE <<Fail("C10", c, "Parse result shape (default field)", "none")>>)
       \o (IF SqlShape(c.res) /\ SqlShape(c.resdf) THEN <<>> ELSE <<Fail("C10", c, "renderer result shape", "none")>>)

\* C11: same accept set; erasing the scoping gives the tree without the option; no bare term remains
C11(c) == IF Ok(c.res) # Ok(c.resdf) THEN <<Fail("C11", c, "accepted with but not without (or vice versa)", "none")>>
          ELSE IF ~Ok(c.res) THEN <<>>
          ELSE (IF G!EraseDefault(c.resdf.tree, c.df) = c.res.tree THEN <<>>
                ELSE <<Fail("C11", c, "erasing the default field gives another tree",
                            IF KF!KF_C11_ListForm(c.resdf.tree, c.res.tree, c.df) THEN "C11-list-form" ELSE "none")>>)
               \o (IF G!NoBareTerm(c.resdf.tree) THEN <<>> ELSE <<Fail("C11", c, "bare term remains", "none")>>)

\* C01: every observable returns normally, no formatting-error marker, and the parser's work is
\* linear in the number of tokens: loop iterations <= 3n+3, reduce attempts <= 16(n+1)
CallsOk(r) == ~HasObs(r) \/ \A k \in DOMAIN r.obs : r.obs[k].out \in {"ok","err"} /\ ~r.obs[k].marker
Work(r) == r.nsteps <= 3 * r.ntoks + 3 /\ r.attempts <= 16 * (r.ntoks + 1)
C01one(c, r, tag) == (IF r.outcome \in {"ok","err"} THEN <<>> ELSE <<Fail("C01", c, (IF r.outcome = "killed" THEN "a call on this input exhausted memory or time: the recorder process was killed" ELSE "Parse " \o r.outcome) \o tag, "none")>>)
                  \o (IF CallsOk(r) THEN <<>> ELSE <<Fail("C01", c, "printer, encoder or renderer panicked or printed a %! marker" \o tag, "none")>>)
                  \o (IF Work(r) THEN <<>> ELSE <<Fail("C01", c, "parser work not linear in the tokens" \o tag, "none")>>)
C01(c) == C01one(c, c.res, "") \o C01one(c, c.resdf, " (default field)")

\* C12: JSON round trip of every returned expression
C12one(c, key, r, tag) == IF key \notin DOMAIN c THEN <<>>
                          ELSE IF RT!RtVerdict(c[key], r.tree) = "" THEN <<>>
                          ELSE <<Fail("C12", c, RT!RtVerdict(c[key], r.tree) \o tag,
                                      IF c[key].dec = "ok" /\ KF!KF_C12_NegativeZero(r.tree) THEN "C12-negative-zero"
                                      ELSE IF c[key].dec = "ok" /\ KF!KF_C12_BigIntBound(r.tree) THEN "C12-big-int-range-bound" ELSE "none")>>
C12(c) == C12one(c, "rt", c.res, "") \o C12one(c, "rtdf", c.resdf, " (default field)")
\* conformance of the codec MECH (ExprJson.tla): the decoded tree is what the model says (drift, not a verdict)
CodecConf(c, key, r) == key \notin DOMAIN c \/ c[key].dec # "ok" \/ c[key].tree2 = EJ!RoundTripped(r.tree, c[key].leaves)
CodecDrift(c) == IF Prop = "C12" /\ ~(CodecConf(c, "rt", c.res) /\ CodecConf(c, "rtdf", c.resdf))
                 THEN (IF PrintT("MODEL-DRIFT " \o ToJson([q |-> c.q, code |-> (IF "rt" \in DOMAIN c THEN c.rt.tree2 ELSE <<>>),
                                                            model |-> EJ!RoundTripped(c.res.tree, IF "rt" \in DOMAIN c THEN c.rt.leaves ELSE <<>>)])) THEN 1 ELSE 1)
                 ELSE 0

Judge(c) == CASE Prop = "C12" -> C12(c) [] Prop = "C01" -> C01(c) [] Prop = "C06" -> C06(c) [] Prop = "C10" -> C10(c) [] Prop = "C11" -> C11(c)

\* the file is judged in Shards independent behaviours (shard sh takes lines sh+1, sh+1+Shards, ...), which
\* TLC explores in parallel with -workers
VARIABLES sh, n, last, fails, kfs, nfail, nkf, judged, ndrift
vars == <<sh, n, last, fails, kfs, nfail, nkf, judged, ndrift>>
Open(f)  == SelectSeq(f, LAMBDA v : v.kf = "none")
Known(f) == SelectSeq(f, LAMBDA v : v.kf # "none")
Init == sh \in 0..(Shards - 1) /\ n = sh /\ last = <<>> /\ fails = <<>> /\ kfs = <<>> /\ nfail = 0 /\ nkf = 0 /\ judged = 0 /\ ndrift = 0
\* each step judges one line into `last` (evaluated exactly once) and files the previous line's verdicts
Next == /\ n < Len(Lines) + Shards /\ n' = n + Shards /\ UNCHANGED sh
        /\ last' = IF n < Len(Lines) THEN Judge(Lines[n + 1]) ELSE <<>>
        /\ fails' = IF Len(fails) >= 100 THEN fails ELSE fails \o Open(last)
        /\ kfs' = IF Len(kfs) >= 100 THEN kfs ELSE kfs \o Known(last)
        /\ nfail' = nfail + Len(Open(last)) /\ nkf' = nkf + Len(Known(last))
        /\ judged' = judged + (IF n < Len(Lines) THEN (IF Ok(Lines[n + 1].res) THEN 1 ELSE 0) + (IF Ok(Lines[n + 1].resdf) THEN 1 ELSE 0) ELSE 0)
        /\ ndrift' = ndrift + (IF n < Len(Lines) THEN CodecDrift(Lines[n + 1]) ELSE 0)
Spec == Init /\ [][Next]_vars
Report == n >= Len(Lines) + Shards =>
            /\ PrintT("JUDGED " \o ToJson([prop |-> Prop, shard |-> sh, accepted |-> judged, failures |-> nfail, known |-> nkf, drift |-> ndrift]))
            /\ ndJsonSerialize(VerdictFile \o "." \o ToString(sh), fails \o kfs)
========================================================================
