---------------------------- MODULE Grammar ----------------------------
(* REF: what the properties demand of Parse, written without reference to parse.go/reduce.go.  *)
(*   Derives      - C06: the tree is a derivation of the token sequence in the documented grammar *)
(*   WellFormed   - C10: independent shape check of an accepted tree                              *)
(*   EraseDefault, NoBareTerm - C11                                                               *)
(* Tokens are [t |-> type or terminal kind, v |-> value text, pv |-> numeric text as float64];    *)
(* trees are the records described in Expr.tla (only field access is shared, no operator).        *)
EXTENDS Integers, Sequences, FiniteSets

GLeafOps == {"LIT","WILD","REGEXP"}
GIsLeaf(T) == T.op \in GLeafOps
GTermKinds == {"word","quoted","wild","star","regexp","int","zint","nint","float","zfloat","nfloat"}
GIsTerm(tok) == tok.t \in GTermKinds
GCol(name) == [op |-> "LIT", ty |-> "col", v |-> name, sg |-> "x"]

\* a term token denotes exactly one typed leaf
LeafMatches(T, tok) ==
  /\ GIsLeaf(T) /\ GIsTerm(tok) /\ T.v = tok.v
  /\ CASE tok.t \in {"word","quoted"}           -> T.op = "LIT" /\ T.ty = "str"
       [] tok.t \in {"int","zint","nint"}       -> T.op = "LIT" /\ T.ty = "int"
       [] tok.t \in {"float","zfloat","nfloat"} -> T.op = "LIT" /\ T.ty = "float"
       [] tok.t \in {"wild","star"}             -> T.op = "WILD"
       [] tok.t = "regexp"                      -> T.op = "REGEXP"
       [] OTHER -> FALSE

\* field position: a single term of any kind (a string-valued one names a column)
FieldMatches(T, tok) ==
  \/ LeafMatches(T, tok)
  \/ GIsTerm(tok) /\ tok.t \in {"word","quoted","wild","star","regexp"} /\ T = GCol(tok.v)

\* Every term token is exactly one leaf (or one ~ ^ argument), so a subtree with n leaves and m suffix
\* operators derives an interval holding between n and n+m term tokens.  That necessary condition is checked
\* first (it only prunes the search; the clauses of D are the definition).  Ann annotates each node once
\* with n and m; the annotated node keeps the original node in .src.
\* (no LET with several uses below: TLC re-evaluates a LET definition at every use inside an action)
RECURSIVE NLeaves(_), NSufs(_), Ann(_)
NLeaves(T) == CASE GIsLeaf(T) -> 1
                [] T.op \in {"AND","OR","EQUALS","LIKE","GREATER","LESS","GREATER_EQ","LESS_EQ"} -> NLeaves(T.l) + NLeaves(T.r)
                [] T.op \in {"NOT","MUST","MUST_NOT","FUZZY","BOOST"} -> NLeaves(T.l)
                [] T.op = "RANGE" -> 3
                [] T.op = "IN" -> 1 + Len(T.items)
                [] OTHER -> 1000000
NSufs(T) == CASE GIsLeaf(T) -> 0
              [] T.op \in {"AND","OR","EQUALS","LIKE","GREATER","LESS","GREATER_EQ","LESS_EQ"} -> NSufs(T.l) + NSufs(T.r)
              [] T.op \in {"NOT","MUST","MUST_NOT"} -> NSufs(T.l)
              [] T.op \in {"FUZZY","BOOST"} -> 1 + NSufs(T.l)
              [] OTHER -> 0
Ann(T) ==
  CASE GIsLeaf(T) -> [op |-> T.op, n |-> 1, m |-> 0, src |-> T]
    [] T.op \in {"AND","OR","EQUALS","LIKE","GREATER","LESS","GREATER_EQ","LESS_EQ"} ->
         [op |-> T.op, n |-> NLeaves(T), m |-> NSufs(T), l |-> Ann(T.l), r |-> Ann(T.r), src |-> T]
    [] T.op \in {"NOT","MUST","MUST_NOT"} -> [op |-> T.op, n |-> NLeaves(T), m |-> NSufs(T), l |-> Ann(T.l), src |-> T]
    [] T.op \in {"FUZZY","BOOST"} -> [op |-> T.op, n |-> NLeaves(T), m |-> NSufs(T), l |-> Ann(T.l), p |-> T.p, src |-> T]
    [] T.op \in {"RANGE","IN"} -> [op |-> T.op, n |-> NLeaves(T), m |-> 0, src |-> T]
    [] OTHER -> [op |-> "BAD", n |-> 1000000, m |-> 0, src |-> T]

RECURSIVE D(_,_,_,_,_), F(_,_,_,_), B(_,_,_,_), ChainD(_,_,_,_,_,_)
\* a single term, possibly parenthesised, in field position / as a range bound or ~ ^ argument
F(tk, T, i, j) == \/ i = j /\ FieldMatches(T, tk[i])
                  \/ j - i >= 2 /\ tk[i].t = "LPAREN" /\ tk[j].t = "RPAREN" /\ F(tk, T, i+1, j-1)
B(tk, T, i, j) == \/ i = j /\ LeafMatches(T, tk[i])
                  \/ j - i >= 2 /\ tk[i].t = "LPAREN" /\ tk[j].t = "RPAREN" /\ B(tk, T, i+1, j-1)
RECURSIVE NumArg(_,_,_,_,_)
NumArg(tk, p, i, j, kinds) ==
  \/ i = j /\ tk[i].t \in kinds /\ tk[i].pv = p
  \/ j - i >= 2 /\ tk[i].t = "LPAREN" /\ tk[j].t = "RPAREN" /\ NumArg(tk, p, i+1, j-1, kinds)

\* items[a..b] are the plain values of an OR-chain over tokens i..j, in order, any association
ChainD(tk, items, a, b, i, j) ==
  IF i > j THEN FALSE ELSE
  \/ j - i >= 2 /\ tk[i].t = "LPAREN" /\ tk[j].t = "RPAREN" /\ ChainD(tk, items, a, b, i+1, j-1)
  \/ a = b /\ i = j /\ LeafMatches(items[a], tk[i])
  \/ a < b /\ \E m \in a..(b-1) : \E k \in i..(j-2) :
        tk[k+1].t = "OR" /\ ChainD(tk, items, a, m, i, k) /\ ChainD(tk, items, m+1, b, k+2, j)

\* tc[i+1] = number of term tokens among tk[1..i] (an explicit tuple, built once per case); A = annotated node
RECURSIVE PrefixCounts(_,_,_)
PrefixCounts(tk, i, acc) == IF i > Len(tk) THEN acc
                            ELSE PrefixCounts(tk, i + 1, Append(acc, acc[i] + (IF GIsTerm(tk[i]) THEN 1 ELSE 0)))
Fits(tc, A, i, j) == tc[j+1] - tc[i] >= A.n /\ tc[j+1] - tc[i] <= A.n + A.m

D(tk, tc, A, i, j) ==
  IF i > j \/ ~Fits(tc, A, i, j) THEN FALSE ELSE
  \/ j - i >= 2 /\ tk[i].t = "LPAREN" /\ tk[j].t = "RPAREN" /\ D(tk, tc, A, i+1, j-1)      \* (E), non-empty
  \/ CASE A.op \in GLeafOps -> i = j /\ LeafMatches(A.src, tk[i])
       [] A.op = "AND" -> \E k \in i..(j-1) : D(tk, tc, A.l, i, k) /\
                             ( D(tk, tc, A.r, k+1, j)                                          \* juxtaposition
                               \/ (k+2 <= j /\ tk[k+1].t = "AND" /\ D(tk, tc, A.r, k+2, j)) )
       [] A.op = "OR"  -> \E k \in i..(j-2) : tk[k+1].t = "OR" /\ D(tk, tc, A.l, i, k) /\ D(tk, tc, A.r, k+2, j)
       [] A.op \in {"EQUALS","LIKE"} ->
             \E k \in i..(j-2) : tk[k+1].t \in {"COLON","EQUAL"} /\ F(tk, A.src.l, i, k) /\ D(tk, tc, A.r, k+2, j)
             /\ (A.op = "LIKE") = (A.r.op \in {"WILD","REGEXP"})
       [] A.op = "IN" -> \E k \in i..(j-2) : tk[k+1].t \in {"COLON","EQUAL"} /\ F(tk, A.src.l, i, k)
                             /\ Len(A.src.items) >= 2 /\ ChainD(tk, A.src.items, 1, Len(A.src.items), k+2, j)
       [] A.op \in {"GREATER","LESS"} -> \E k \in i..(j-3) : tk[k+1].t = "COLON" /\ tk[k+2].t = A.op
                             /\ F(tk, A.src.l, i, k) /\ D(tk, tc, A.r, k+3, j)
       [] A.op \in {"GREATER_EQ","LESS_EQ"} -> \E k \in i..(j-4) : tk[k+1].t = "COLON"
                             /\ tk[k+2].t = (IF A.op = "GREATER_EQ" THEN "GREATER" ELSE "LESS") /\ tk[k+3].t = "EQUAL"
                             /\ F(tk, A.src.l, i, k) /\ D(tk, tc, A.r, k+4, j)
       [] A.op = "RANGE" -> \E k \in i..(j-6) : \E m \in (k+3)..(j-3) :
                             /\ tk[k+1].t = "COLON" /\ tk[m+1].t = "TO"
                             /\ tk[k+2].t \in {"LSQUARE","LCURLY"} /\ tk[j].t \in {"RSQUARE","RCURLY"}
                             /\ F(tk, A.src.l, i, k) /\ B(tk, A.src.lo, k+3, m) /\ B(tk, A.src.hi, m+2, j-1)
                             /\ A.src.inc = (tk[k+2].t = "LSQUARE" /\ tk[j].t = "RSQUARE")
       [] A.op = "NOT"      -> tk[i].t = "NOT"   /\ D(tk, tc, A.l, i+1, j)
       [] A.op = "MUST"     -> tk[i].t = "PLUS"  /\ D(tk, tc, A.l, i+1, j)
       [] A.op = "MUST_NOT" -> tk[i].t = "MINUS" /\ D(tk, tc, A.l, i+1, j)
       [] A.op = "FUZZY" -> \/ tk[j].t = "TILDE" /\ A.p = "1" /\ D(tk, tc, A.l, i, j-1)
                            \/ \E k \in (i+1)..(j-1) : tk[k].t = "TILDE" /\ NumArg(tk, A.p, k+1, j, {"int","zint","nint"})
                                   /\ D(tk, tc, A.l, i, k-1)
       [] A.op = "BOOST" -> \/ tk[j].t = "CARROT" /\ A.p = "1" /\ D(tk, tc, A.l, i, j-1)
                            \/ \E k \in (i+1)..(j-1) : tk[k].t = "CARROT" /\ NumArg(tk, A.p, k+1, j, {"int","float"})
                                   /\ D(tk, tc, A.l, i, k-1)
       [] OTHER -> FALSE

Derives(T, toks) ==
  /\ Len(toks) > 0
  /\ D(toks, PrefixCounts(toks, 1, <<0>>), Ann(T), 1, Len(toks))

\* ---- C10: independent shape check -------------------------------------------------------------
RECURSIVE WellFormed(_)
WellFormed(T) ==
  CASE GIsLeaf(T) -> TRUE
    [] T.op \in {"EQUALS","GREATER","LESS","GREATER_EQ","LESS_EQ"} -> GIsLeaf(T.l) /\ WellFormed(T.r)
    [] T.op = "LIKE"  -> GIsLeaf(T.l) /\ T.r.op \in {"WILD","REGEXP"}
    [] T.op = "IN"    -> GIsLeaf(T.l) /\ Len(T.items) >= 2 /\ \A n \in DOMAIN T.items : T.items[n].op = "LIT"
    [] T.op = "RANGE" -> GIsLeaf(T.l) /\ GIsLeaf(T.lo) /\ GIsLeaf(T.hi) /\ T.inc \in BOOLEAN
    [] T.op \in {"AND","OR"} -> WellFormed(T.l) /\ WellFormed(T.r)
    [] T.op \in {"NOT","MUST","MUST_NOT","FUZZY","BOOST"} -> WellFormed(T.l)
    [] OTHER -> FALSE

\* ---- C11: default field --------------------------------------------------------------------
RECURSIVE EraseDefault(_,_)
EraseDefault(T, f) ==
  CASE GIsLeaf(T) -> T
    [] T.op \in {"EQUALS","LIKE"} /\ T.l = GCol(f) /\ GIsLeaf(T.r) -> T.r
    [] T.op \in {"EQUALS","LIKE","GREATER","LESS","GREATER_EQ","LESS_EQ","AND","OR"} ->
          [T EXCEPT !.l = EraseDefault(T.l, f), !.r = EraseDefault(T.r, f)]
    [] T.op \in {"NOT","MUST","MUST_NOT","FUZZY","BOOST"} -> [T EXCEPT !.l = EraseDefault(T.l, f)]
    [] OTHER -> T
\* a term standing alone as an operand (or as the whole query) is "bare"
RECURSIVE NoBareOperand(_)
NoBareOperand(T) ==
  CASE GIsLeaf(T) -> FALSE
    [] T.op \in {"AND","OR"} -> NoBareOperand(T.l) /\ NoBareOperand(T.r)
    [] T.op \in {"NOT","MUST","MUST_NOT","FUZZY","BOOST"} -> NoBareOperand(T.l)
    [] T.op \in {"EQUALS","GREATER","LESS","GREATER_EQ","LESS_EQ"} -> GIsLeaf(T.r) \/ NoBareOperand(T.r)
    [] OTHER -> TRUE
NoBareTerm(T) == NoBareOperand(T)
=======================================================================
