---------------------------- MODULE Printers ----------------------------
(* MECH: Expression.String() and Expression.GoString() (pkg/lucene/expr/renderer.go + the fmt verbs they use),     *)
(* transcribed over the tree records, so that the model predicts the exact text both printers return for a parsed *)
(* tree.  Bound to the code by JudgeTrees (PRINT-DRIFT: predicted text = observed text).                           *)
(* Domain: printable ASCII values (strconv.Quote escapes everything else in ways a TLC string cannot be asked      *)
(* about); numbers are given as Go prints them with %v; a boost power that %.1f would have to round at exactly     *)
(* ...5 is reported unknown.                                                                                        *)
EXTENDS Integers, Sequences, FiniteSets, TLC
RM == INSTANCE Render

Ch(s, i) == SubSeq(s, i, i)
Printable == " !#$%&'()*+,-./0123456789:;<=>?@ABCDEFGHIJKLMNOPQRSTUVWXYZ[]^_`abcdefghijklmnopqrstuvwxyz{|}~"
PrintableSet == {Ch(Printable, i) : i \in 1..Len(Printable)} \cup {"\"", "\\"}      \* a constant: TLC evaluates it once
IsPrintable(c) == c \in PrintableSet
InDomain(v) == \A i \in 1..Len(v) : IsPrintable(Ch(v, i))
\* strconv.Quote on printable ASCII: only the quote and the backslash are escaped
RECURSIVE Esc(_)
Esc(s) == IF s = "" THEN "" ELSE (IF Ch(s, 1) = "\"" THEN "\\\"" ELSE IF Ch(s, 1) = "\\" THEN "\\\\" ELSE Ch(s, 1)) \o Esc(Tail(s))
GoQuote(s) == "\"" \o Esc(s) \o "\""

OpName(op) == IF op = "LIT" THEN "LITERAL" ELSE op
LeafOps == {"LIT","WILD","REGEXP"}
R(known, s) == [known |-> known, s |-> s]

\* %v / %#v of the raw value a leaf holds
Raw(leaf) == leaf.v
RawGo(leaf) == CASE leaf.ty = "str" -> GoQuote(leaf.v)
                 [] leaf.ty = "col" -> "COLUMN(" \o leaf.v \o ")"
                 [] OTHER -> leaf.v
\* renderLiteral, not verbose: a string holding a space is wrapped in double quotes (a Column is not a string)
LeafStr(leaf) == IF leaf.ty = "str" /\ RM!HasCh(leaf.v, " ") THEN "\"" \o leaf.v \o "\"" ELSE leaf.v

\* the %.1f of a boost power given as Go prints the float64; [known, text]
Pow1(p) == IF RM!IsDec(p) THEN RM!FmtDec(p, 1) ELSE [known |-> FALSE, text |-> ""]
\* boostPower > 1, fuzzyDistance > 1 on the texts of the tree record
RECURSIVE NatOf(_)
NatOf(d) == IF d = "" THEN 0 ELSE 10 * NatOf(SubSeq(d, 1, Len(d) - 1)) + (CHOOSE k \in 0..9 : ToString(k) = Ch(d, Len(d)))
DistGt1(d) == RM!AllDigits(d) /\ (Len(d) > 1 \/ NatOf(d) > 1) /\ RM!StripZeros(d) \notin {"0","1"}
PowGt1(p) == \* p > 1 for a plain decimal text: integer part > 1, or = 1 with a non-zero fraction
  LET u == RM!Unsigned(p)  m == RM!Mant(u) IN
  ~RM!Neg(p) /\ RM!EPos(u) = {} /\
  LET ip == RM!StripZeros(IF RM!IntPart(m) = "" THEN "0" ELSE RM!IntPart(m))  fp == RM!FracPart(m) IN
  (Len(ip) > 1 \/ ip \notin {"0","1"}) \/ (ip = "1" /\ fp # "" /\ ~RM!AllZero(fp))
PowKnown(p) == RM!IsDec(p) /\ RM!EPos(RM!Unsigned(p)) = {}

RECURSIVE Str(_), Go(_), JoinRaw(_,_,_)
JoinRaw(items, i, verbose) ==
  IF i > Len(items) THEN ""
  ELSE (IF i = 1 THEN "" ELSE ", ") \o (IF verbose THEN RawGo(items[i]) ELSE Raw(items[i])) \o JoinRaw(items, i + 1, verbose)
Str(T) ==
  CASE T.op \in LeafOps -> LeafStr(T)
    [] T.op = "EQUALS" -> Str(T.l) \o ":" \o Str(T.r)
    [] T.op \in {"AND","OR","GREATER","LESS","GREATER_EQ","LESS_EQ","LIKE"} -> Str(T.l) \o " " \o T.op \o " " \o Str(T.r)
    [] T.op = "IN" -> Str(T.l) \o " IN (" \o JoinRaw(T.items, 1, FALSE) \o ")"
    [] T.op = "NOT" -> "NOT(" \o Str(T.l) \o ")"
    [] T.op = "MUST" -> "+" \o Str(T.l)
    [] T.op = "MUST_NOT" -> "-" \o Str(T.l)
    [] T.op = "BOOST" -> IF PowGt1(T.p) THEN Str(T.l) \o "^" \o Pow1(T.p).text ELSE Str(T.l) \o "^"
    [] T.op = "FUZZY" -> IF DistGt1(T.p) THEN Str(T.l) \o "~" \o T.p ELSE Str(T.l) \o "~"
    [] T.op = "RANGE" -> Str(T.l) \o (IF T.inc THEN ":[" ELSE ":{") \o Str(T.lo) \o " TO " \o Str(T.hi) \o (IF T.inc THEN "]" ELSE "}")
Go(T) ==
  CASE T.op \in LeafOps -> OpName(T.op) \o "(" \o RawGo(T) \o ")"
    [] T.op = "EQUALS" -> Go(T.l) \o ":" \o Go(T.r)
    [] T.op \in {"AND","OR","GREATER","LESS","GREATER_EQ","LESS_EQ","LIKE"} -> "(" \o Go(T.l) \o ") " \o T.op \o " (" \o Go(T.r) \o ")"
    [] T.op = "IN" -> "(" \o Go(T.l) \o ") IN (LIST(" \o JoinRaw(T.items, 1, TRUE) \o "))"
    [] T.op \in {"NOT","MUST","MUST_NOT"} -> T.op \o "(" \o Go(T.l) \o ")"
    [] T.op = "BOOST" -> IF PowGt1(T.p) THEN "BOOST(" \o Go(T.l) \o "^" \o Pow1(T.p).text \o ")" ELSE "BOOST(" \o Go(T.l) \o ")"
    [] T.op = "FUZZY" -> IF DistGt1(T.p) THEN "FUZZY(" \o Go(T.l) \o "~" \o T.p \o ")" ELSE "FUZZY(" \o Go(T.l) \o ")"
    [] T.op = "RANGE" -> Go(T.l) \o (IF T.inc THEN ":[" ELSE ":{") \o Go(T.lo) \o " TO " \o Go(T.hi) \o (IF T.inc THEN "]" ELSE "}")

\* is the tree inside the modelled domain
RECURSIVE Known(_)
Known(T) ==
  CASE T.op \in LeafOps -> InDomain(T.v)
    [] T.op = "IN" -> Known(T.l) /\ \A i \in DOMAIN T.items : Known(T.items[i])
    [] T.op = "RANGE" -> Known(T.l) /\ Known(T.lo) /\ Known(T.hi)
    [] T.op = "BOOST" -> Known(T.l) /\ PowKnown(T.p) /\ (PowGt1(T.p) => Pow1(T.p).known)
    [] T.op = "FUZZY" -> Known(T.l) /\ RM!AllDigits(T.p)
    [] T.op \in {"NOT","MUST","MUST_NOT"} -> Known(T.l)
    [] T.op \in {"EQUALS","AND","OR","GREATER","LESS","GREATER_EQ","LESS_EQ","LIKE"} -> Known(T.l) /\ Known(T.r)
    [] OTHER -> FALSE
String(T) == R(Known(T), Str(T))
GoString(T) == R(Known(T), Go(T))
=========================================================================
