SPECIFICATION Spec
CONSTANTS
  LeafKinds = {"bare", "feq", "frange", "flist"}
  Depth = 2
  OutFile = "cases.ndjson"
  Seed = 0
  WsPerTree = 1
  Sample = 0
POSTCONDITION Post
CHECK_DEADLOCK FALSE
