SPECIFICATION Spec
CONSTANTS
  ResFile = "res.ndjson"
  VerdictFile = "verdicts.ndjson"
  Prop = "C05"
INVARIANT Report
CHECK_DEADLOCK FALSE
