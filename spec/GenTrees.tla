--------------------------- MODULE GenTrees ---------------------------
(* REF + generator for the tree-driven properties (C05, C07, C09 parentheses/whitespace/case).  *)
(* Enumerates every expression tree up to Depth over a leaf alphabet, prints each as a token    *)
(* sequence with parentheses exactly where the documented precedence table (Tokens!DocLevel)     *)
(* and left associativity require them, and states the tree the text must parse to.  Variants:   *)
(*   min    - minimal parentheses, explicit AND                       (C05)                      *)
(*   paren  - redundant parentheses around every operand of an explicit operator, every plain    *)
(*            field value and the whole query                          (C05, C09)                *)
(*   juxt   - a subset of the eligible AND nodes written as juxtaposition (C07)                  *)
(*   ws     - whitespace / keyword-case vector chosen per gap           (C09)                    *)
(* The cases are written as ndjson for the Go harness, which types exactly these tokens.         *)
EXTENDS Integers, Sequences, FiniteSets, TLC, Json, SequencesExt

CONSTANTS LeafKinds, Depth, OutFile, Seed, WsPerTree, Sample, Muts, Suffix

Level(T) == CASE T.op \in {"LEAF","FGROUP"} -> 9 [] T.op = "OR" -> 1 [] T.op = "AND" -> 2 [] T.op = "NOT" -> 3
              [] T.op = "BOOST" -> 4 [] T.op = "FUZZY" -> 5 [] T.op = "MUST_NOT" -> 6 [] T.op = "MUST" -> 7

\* ---- abstract trees -------------------------------------------------------------------------
Lf(k) == [op |-> "LEAF", k |-> k]
Un(o, a) == [op |-> o, a |-> a]
Sx(o, a, p) == [op |-> o, a |-> a, p |-> p]
Bi(o, a, b) == [op |-> o, a |-> a, b |-> b]
\* "FGROUP" among the leaf kinds switches on the field group  w:( E )  as one more unary operator
T0 == {Lf(k) : k \in LeafKinds \ {"FGROUP"}}
\* a single term in the group is the parenthesised field value (FieldVal) and an OR chain of plain values is a value list
\* (FieldList): the group holds any other tree - in particular an OR with a fielded member, w:(w OR w:w)
BareLit == {"bare","bareint","barenint","barefloat","barequoted","baresame"}
RECURSIVE OrOfBare(_)
OrOfBare(a) == \/ a.op = "LEAF" /\ a.k \in BareLit
               \/ a.op = "OR" /\ OrOfBare(a.a) /\ OrOfBare(a.b)
GroupOk(a) == a.op # "LEAF" /\ ~OrOfBare(a)
\* Suffix = FALSE leaves out ~ and ^ (the SQL renderers reject them by design).
\* (The group term is a UNION on purpose: with a subset expression {x \in S : GroupOk(x)} anywhere in this definition TLC no
\* longer evaluates the constant AllTrees once but again at every use, which made the generator fifty times slower.)
Grow(S) == S \cup {Un(o, a) : o \in {"NOT","MUST","MUST_NOT"}, a \in S}
             \cup (IF "FGROUP" \in LeafKinds THEN UNION {IF GroupOk(a) THEN {Un("FGROUP", a)} ELSE {} : a \in S} ELSE {})
             \cup (IF Suffix THEN {Sx("FUZZY", a, p) : a \in S, p \in {"none","int","zint"}} ELSE {})
             \cup (IF Suffix THEN {Sx("BOOST", a, p) : a \in S, p \in {"none","int","float"}} ELSE {})
             \cup {Bi(o, a, b) : o \in {"AND","OR"}, a \in S, b \in S}
RECURSIVE TreesTo(_)
TreesTo(d) == IF d = 0 THEN T0 ELSE Grow(TreesTo(d - 1))

\* ---- tokens and concrete leaves (the same text scheme as Parser!TokVal / harness tokVal) ----
TokVal(kind, i) ==
  CASE kind = "word"   -> CASE i % 4 = 1 -> "w*" \o ToString(i)                                  \* typed w\*1: an escaped wildcard
                            [] i % 4 = 2 -> "w" \o ToString(i) \o ":"                          \* typed w2\: : ends in an escaped colon
                            [] i % 4 = 3 -> "w(" \o ToString(i)                                  \* typed w\(3: an escaped parenthesis
                            [] OTHER     -> "w" \o ToString(i)
    [] kind = "quoted" -> CASE i % 5 = 1 -> "q*" \o ToString(i)                                  \* "q*1" - not a pattern
                            [] i % 5 = 2 -> "q " \o ToString(i)
                            [] i % 5 = 3 -> "/q" \o ToString(i) \o "/"                            \* "/q3/" - not a regexp
                            [] i % 5 = 4 -> "it's " \o ToString(i)                               \* "it's 4" - the other quote character inside
                            [] OTHER     -> ToString(i)                                          \* "5" - not a number
    [] kind = "wild"   -> IF i % 2 = 0 THEN "w" \o ToString(i) \o "\\\\*" ELSE "w" \o ToString(i) \o "*"   \* w2\\* : an escaped backslash, then a wildcard
    [] kind = "star"   -> "*"
    [] kind = "regexp" -> "/r" \o ToString(i) \o "/"
    [] kind = "int"    -> ToString(10 + i)
    [] kind = "zint"   -> "0"
    [] kind = "nint"   -> "-" \o ToString(10 + i)
    [] kind = "float"  -> ToString(i) \o ".5"
    [] kind = "ifloat" -> ToString(i) \o ".0"          \* an integer-valued float (C12)
    [] kind = "empty"  -> ""                           \* the empty quoted string ""
    [] kind = "same"   -> "same"                       \* the same word wherever it stands (repeated values / subtrees)
    [] OTHER           -> kind
NumKind(k) == k \in {"int","zint","nint","float","ifloat"}
Tk(kind, i) == [t |-> kind, v |-> TokVal(kind, i), pv |-> IF NumKind(kind) THEN TokVal(kind, i) ELSE ""]
Sy(t) == [t |-> t, v |-> t, pv |-> ""]
IsTermTok(tok) == tok.t \in {"word","quoted","wild","star","regexp","int","zint","nint","float","ifloat","empty","same"}
\* what a term token denotes (REF, property C06/C08): a typed leaf
RLeaf(tok) ==
  CASE tok.t \in {"word","quoted","empty","same"} -> [op |-> "LIT", ty |-> "str", v |-> tok.v, sg |-> "x"]
    [] tok.t = "ifloat"            -> [op |-> "LIT", ty |-> "float", v |-> ToString(CHOOSE k \in 0..400 : ToString(k) \o ".0" = tok.v), sg |-> "p"]
    [] tok.t = "int"               -> [op |-> "LIT", ty |-> "int", v |-> tok.v, sg |-> "p"]
    [] tok.t = "zint"              -> [op |-> "LIT", ty |-> "int", v |-> tok.v, sg |-> "z"]
    [] tok.t = "nint"              -> [op |-> "LIT", ty |-> "int", v |-> tok.v, sg |-> "n"]
    [] tok.t = "float"             -> [op |-> "LIT", ty |-> "float", v |-> tok.v, sg |-> "p"]
    [] tok.t \in {"wild","star"}   -> [op |-> "WILD", ty |-> "str", v |-> tok.v, sg |-> "x"]
    [] tok.t = "regexp"            -> [op |-> "REGEXP", ty |-> "str", v |-> tok.v, sg |-> "x"]
RCol(tok) == [op |-> "LIT", ty |-> "col", v |-> tok.v, sg |-> "x"]

LP == Sy("LPAREN")
RP == Sy("RPAREN")
Out(toks, tree, pos) == [toks |-> toks, tree |-> tree, pos |-> pos]

\* field:value leaf forms.  p = ordinal of the next term token (terms are numbered by their order among
\* the terms, so adding parentheses or dropping an AND does not rename them); vp = parenthesise the value
FieldVal(p, vkind, vp) ==
  LET f == Tk("word", p)
      v == Tk(vkind, p + 1)
      op == IF vkind \in {"wild","star","regexp"} THEN "LIKE" ELSE "EQUALS"
      toks == IF vp THEN <<f, Sy("COLON"), LP, v, RP>> ELSE <<f, Sy("COLON"), v>>
  IN Out(toks, [op |-> op, l |-> RCol(f), r |-> RLeaf(v)], p + 2)
FieldCmp(p, op, vp) ==
  LET f == Tk("word", p)
      sym == IF op \in {"GREATER","GREATER_EQ"} THEN "GREATER" ELSE "LESS"
      mid == IF op \in {"GREATER_EQ","LESS_EQ"} THEN <<Sy("COLON"), Sy(sym), Sy("EQUAL")>> ELSE <<Sy("COLON"), Sy(sym)>>
      v == Tk("int", p + 1)
      toks == <<f>> \o mid \o (IF vp THEN <<LP, v, RP>> ELSE <<v>>)
  IN Out(toks, [op |-> op, l |-> RCol(f), r |-> RLeaf(v)], p + 2)
FieldRange(p, open, lokind, hikind, close) ==
  LET f == Tk("word", p)  lo == Tk(lokind, p + 1)  hi == Tk(hikind, p + 2)
      toks == <<f, Sy("COLON"), Sy(open), lo, Sy("TO"), hi, Sy(close)>>
  IN Out(toks, [op |-> "RANGE", l |-> RCol(f), lo |-> RLeaf(lo), hi |-> RLeaf(hi),
                inc |-> (open = "LSQUARE" /\ close = "RSQUARE")], p + 3)
\* vp: the whole parenthesised list once more in parentheses and every item in parentheses of its own (C09)
FieldList(p, n, vp) ==
  LET f == Tk("word", p)
      item(i) == Tk(IF i = 2 THEN "int" ELSE "word", p + i)
      it(i) == IF vp THEN <<LP, item(i), RP>> ELSE <<item(i)>>
      body == IF n = 2 THEN it(1) \o <<Sy("OR")>> \o it(2) ELSE it(1) \o <<Sy("OR")>> \o it(2) \o <<Sy("OR")>> \o it(3)
      toks == <<f, Sy("COLON"), LP>> \o (IF vp THEN <<LP>> ELSE <<>>) \o body \o (IF vp THEN <<RP>> ELSE <<>>) \o <<RP>>
  IN Out(toks, [op |-> "IN", l |-> RCol(f), items |-> [i \in 1..n |-> RLeaf(item(i))]], p + n + 1)

\* a value list with repeated values: f:(same OR same) and f:(same OR same OR w)
DupList(p, n) ==
  LET f == Tk("word", p)  a == Tk("same", p + 1)  b == Tk("word", p + 2)
      body == IF n = 2 THEN <<a, Sy("OR"), a>> ELSE <<a, Sy("OR"), a, Sy("OR"), b>>
      toks == <<f, Sy("COLON"), LP>> \o body \o <<RP>>
  IN Out(toks, [op |-> "IN", l |-> RCol(f), items |-> IF n = 2 THEN <<RLeaf(a), RLeaf(a)>> ELSE <<RLeaf(a), RLeaf(a), RLeaf(b)>>], p + 3)
LeafForm(k, p, vp) ==
  CASE k = "baresame" -> Out(<<Tk("same", p)>>, RLeaf(Tk("same", p)), p + 1)
    [] k = "feqsame"  -> LET f == Tk("same", p) v == Tk("same", p + 1) IN
                         Out(<<f, Sy("COLON"), v>>, [op |-> "EQUALS", l |-> RCol(f), r |-> RLeaf(v)], p + 2)
    [] k = "fduplist" -> DupList(p, 2)
    [] k = "fduplist3" -> DupList(p, 3)
    [] k = "frangesame" -> LET f == Tk("word", p) b == Tk("int", p + 1) IN
                           Out(<<f, Sy("COLON"), Sy("LSQUARE"), b, Sy("TO"), b, Sy("RSQUARE")>>,
                               [op |-> "RANGE", l |-> RCol(f), lo |-> RLeaf(b), hi |-> RLeaf(b), inc |-> TRUE], p + 2)
    [] k = "bare"     -> Out(<<Tk("word", p)>>, RLeaf(Tk("word", p)), p + 1)
    [] k = "bareint"  -> Out(<<Tk("int", p)>>, RLeaf(Tk("int", p)), p + 1)
    [] k = "barenint" -> Out(<<Tk("nint", p)>>, RLeaf(Tk("nint", p)), p + 1)
    [] k = "barefloat" -> Out(<<Tk("float", p)>>, RLeaf(Tk("float", p)), p + 1)
    [] k = "barequoted" -> Out(<<Tk("quoted", p)>>, RLeaf(Tk("quoted", p)), p + 1)
    [] k = "barewild" -> Out(<<Tk("wild", p)>>, RLeaf(Tk("wild", p)), p + 1)
    [] k = "barere"   -> Out(<<Tk("regexp", p)>>, RLeaf(Tk("regexp", p)), p + 1)
    [] k = "feq"      -> FieldVal(p, "word", vp)
    [] k = "feqint"   -> FieldVal(p, "int", vp)
    [] k = "feqfloat" -> FieldVal(p, "float", vp)
    [] k = "feqq"     -> FieldVal(p, "quoted", vp)
    [] k = "feqifloat" -> FieldVal(p, "ifloat", vp)
    [] k = "feqempty" -> FieldVal(p, "empty", vp)
    [] k = "femptyfield" -> LET f == Tk("empty", p) v == Tk("word", p + 1) IN     \* "":w - a field whose name is the empty string
                            Out(<<f, Sy("COLON"), v>>, [op |-> "EQUALS", l |-> RCol(f), r |-> RLeaf(v)], p + 2)
    [] k = "femptylist" -> LET f == Tk("empty", p) a == Tk("word", p + 1) b == Tk("int", p + 2) IN
                           Out(<<f, Sy("COLON"), LP, a, Sy("OR"), b, RP>>, [op |-> "IN", l |-> RCol(f), items |-> <<RLeaf(a), RLeaf(b)>>], p + 3)
    [] k = "fwild"    -> FieldVal(p, "wild", vp)
    [] k = "fstar"    -> FieldVal(p, "star", vp)
    [] k = "fre"      -> FieldVal(p, "regexp", vp)
    [] k = "fgt"      -> FieldCmp(p, "GREATER", vp)
    [] k = "fge"      -> FieldCmp(p, "GREATER_EQ", vp)
    [] k = "flt"      -> FieldCmp(p, "LESS", vp)
    [] k = "fle"      -> FieldCmp(p, "LESS_EQ", vp)
    [] k = "frange"   -> FieldRange(p, "LSQUARE", "int", "int", "RSQUARE")
    [] k = "fxrange"  -> FieldRange(p, "LCURLY", "word", "star", "RCURLY")
    [] k = "fxirange" -> FieldRange(p, "LCURLY", "int", "int", "RCURLY")
    [] k = "fmixrange" -> FieldRange(p, "LSQUARE", "int", "int", "RCURLY")      \* [1 TO 5} - mixed brackets (accepted; not inclusive)
    [] k = "fmixrange2" -> FieldRange(p, "LCURLY", "word", "word", "RSQUARE")
    [] k = "fmrange"  -> FieldRange(p, "LSQUARE", "star", "float", "RSQUARE")
    [] k = "flist"    -> FieldList(p, 2, vp)
    [] k = "flist3"   -> FieldList(p, 3, vp)

Sym(o) == CASE o = "NOT" -> "NOT" [] o = "MUST" -> "PLUS" [] o = "MUST_NOT" -> "MINUS"
            [] o = "FUZZY" -> "TILDE" [] o = "BOOST" -> "CARROT" [] OTHER -> o

\* ---- the printer ------------------------------------------------------------------------------
\* P(T, pos, path, J, R): tokens of T starting at input position pos.
\*   J = paths of AND nodes to write as juxtaposition (only where the gap is between two terms)
\*   R = TRUE: redundant parentheses around every operand of an explicit operator and plain values
RECURSIVE P(_,_,_,_,_)
Wrap(T, pos, path, J, R, need) ==
  IF need THEN LET r == P(T, pos, path, J, R) IN Out(<<LP>> \o r.toks \o <<RP>>, r.tree, r.pos)
          ELSE P(T, pos, path, J, R)
P(T, pos, path, J, R) ==
  CASE T.op = "LEAF" -> LeafForm(T.k, pos, R)
    [] T.op \in {"AND","OR"} ->
         LET lv == Level(T)
             juxtWanted == T.op = "AND" /\ path \in J
             rr == R /\ ~juxtWanted
             l  == Wrap(T.a, pos, Append(path, "a"), J, R, rr \/ Level(T.a) < lv)
             r  == Wrap(T.b, l.pos, Append(path, "b"), J, R, rr \/ Level(T.b) <= lv)
             juxt == juxtWanted /\ IsTermTok(l.toks[Len(l.toks)]) /\ IsTermTok(r.toks[1])
         IN Out(l.toks \o (IF juxt THEN <<>> ELSE <<Sy(T.op)>>) \o r.toks,
                [op |-> T.op, l |-> l.tree, r |-> r.tree], r.pos)
    [] T.op = "FGROUP" ->
         LET f == Tk("word", pos)
             a == Wrap(T.a, pos + 1, Append(path, "a"), J, R, R)
         IN Out(<<f, Sy("COLON"), LP>> \o a.toks \o <<RP>>, [op |-> "EQUALS", l |-> RCol(f), r |-> a.tree], a.pos)
    [] T.op \in {"NOT","MUST","MUST_NOT"} ->
         LET a == Wrap(T.a, pos, Append(path, "a"), J, R, R \/ Level(T.a) < Level(T))
         IN Out(<<Sy(Sym(T.op))>> \o a.toks, [op |-> T.op, l |-> a.tree], a.pos)
    [] T.op \in {"FUZZY","BOOST"} ->
         LET a == Wrap(T.a, pos, Append(path, "a"), J, R, R \/ Level(T.a) < Level(T))
             arg == IF T.p = "none" THEN <<>> ELSE <<Tk(T.p, a.pos)>>
             \* redundant parentheses around the number as well (it stands where an operand of ~ / ^ stands)
             parg == IF R /\ arg # <<>> THEN <<LP>> \o arg \o <<RP>> ELSE arg
         IN Out(a.toks \o <<Sy(Sym(T.op))>> \o parg,
                [op |-> T.op, l |-> a.tree, p |-> IF T.p = "none" THEN "1" ELSE arg[1].v],
                a.pos + Len(arg))

RECURSIVE AndPaths(_,_)
AndPaths(T, path) ==
  CASE T.op = "LEAF" -> {}
    [] T.op \in {"AND","OR"} -> (IF T.op = "AND" THEN {path} ELSE {})
                                  \cup AndPaths(T.a, Append(path, "a")) \cup AndPaths(T.b, Append(path, "b"))
    [] OTHER -> AndPaths(T.a, Append(path, "a"))

Whole(T, J, R) == LET r == Wrap(T, 1, <<>>, J, R, R) IN r

\* ---- whitespace / keyword case vectors (C09) --------------------------------------------------
WordLike(t) == t \in {"word","int","zint","nint","float","ifloat","same","wild","star","AND","OR","NOT","TO"}
DigitStart(t) == t \in {"int","zint","float","ifloat"}
\* may the two tokens be typed with nothing between them without changing the segmentation
CanAbut(a, b) == /\ ~(WordLike(a) /\ WordLike(b))
                 /\ ~(WordLike(a) /\ b = "MINUS")
                 /\ ~(a = "MINUS" /\ DigitStart(b))
\* index into the harness' whitespace pool: 0 "" 1 " " 2 TAB 3 NL 4 CR 5 mixed run
WsVec(toks, mode) ==
  [g \in 1..(Len(toks) + 1) |->
     IF g = 1 \/ g = Len(toks) + 1 THEN (IF mode = "tight" THEN 0 ELSE RandomElement(0..5))
     ELSE LET abut == CanAbut(toks[g-1].t, toks[g].t) IN
          IF mode = "tight" THEN (IF abut THEN 0 ELSE 1)
          ELSE LET w == RandomElement(0..5) IN IF w = 0 /\ ~abut THEN 1 ELSE w]
CaseVec(toks, mode) == [g \in 1..Len(toks) |-> IF mode = "tight" THEN 1 ELSE RandomElement(0..2)]

\* ---- near-miss inputs: one random token edit of a valid text (C06: "never accepts text that is not a
\* query"; C01/C10/C11 on rejected and accidentally accepted inputs).  No expected tree.
MutAlphabet == <<"word","int","float","wild","star","quoted","regexp","nint","COLON","EQUAL","GREATER","LESS","PLUS","MINUS",
                 "TILDE","CARROT","NOT","AND","OR","LPAREN","RPAREN","LSQUARE","RSQUARE","LCURLY","RCURLY","TO">>
RandTok(i) == LET k == MutAlphabet[RandomElement(1..Len(MutAlphabet))] IN
              IF k \in {"word","int","float","wild","star","quoted","regexp","nint"} THEN Tk(k, 90 + i) ELSE Sy(k)
Mutate(toks, i) ==
  LET n == Len(toks)  at == RandomElement(1..n)  how == RandomElement(1..4) IN
  CASE how = 1 /\ n > 1 -> SubSeq(toks, 1, at - 1) \o SubSeq(toks, at + 1, n)                          \* delete
    [] how = 2          -> SubSeq(toks, 1, at - 1) \o <<RandTok(i)>> \o SubSeq(toks, at + 1, n)        \* replace
    [] how = 3          -> SubSeq(toks, 1, at) \o <<RandTok(i)>> \o SubSeq(toks, at + 1, n)            \* insert
    [] how = 4 /\ at < n -> SubSeq(toks, 1, at - 1) \o <<toks[at + 1], toks[at]>> \o SubSeq(toks, at + 2, n) \* swap
    [] OTHER            -> <<RandTok(i)>> \o toks
NoTree == [op |-> "NIL"]

\* ---- case records ----------------------------------------------------------------------------
Rec(id, base, kind, pr, ws, kc, note) ==
  [id |-> id, base |-> base, kind |-> kind, toks |-> pr.toks, expect |-> pr.tree, df |-> "",
   ws |-> ws, kwcase |-> kc, note |-> note]
NoVec == <<>>

CasesOf(T, n) ==
  LET base == Whole(T, {}, FALSE)
      paren == Whole(T, {}, TRUE)
      aps == AndPaths(T, <<>>)
      subsets == SUBSET aps \ {{}}
      juxts == {Whole(T, J, FALSE) : J \in subsets}
      jreal == {j \in juxts : j.toks # base.toks}
      b == n * 100
  IN <<Rec(b, b, "min", base, NoVec, NoVec, "")>>
     \o <<Rec(b + 1, b, "paren", paren, NoVec, NoVec, "")>>
     \* the same without the pair around the whole query: (A) AND (B) begins and ends with parentheses that do not belong together
     \o <<Rec(b + 11, b, "paren", Wrap(T, 1, <<>>, {}, TRUE, FALSE), NoVec, NoVec, "inner")>>
     \* the fully parenthesised print typed without any optional blank: (-12) , (w)^(2)
     \o <<Rec(b + 12, b, "ws", paren, WsVec(paren.toks, "tight"), CaseVec(paren.toks, "tight"), "tight paren")>>
     \o <<Rec(b + 2, b, "ws", base, WsVec(base.toks, "tight"), CaseVec(base.toks, "tight"), "tight")>>
     \o [i \in 1..WsPerTree |-> Rec(b + 2 + i, b, "ws", base, WsVec(base.toks, "rand"), CaseVec(base.toks, "rand"), "rand")]
     \o (LET js == SetToSeq(jreal) IN [i \in 1..Len(js) |-> Rec(b + 20 + i, b, "juxt", js[i], NoVec, NoVec, "")])
     \o [i \in 1..Muts |-> Rec(b + 40 + i, b, "mut", Out(Mutate(base.toks, i), NoTree, 0), NoVec, NoVec, "")]

\* seeded random trees for depths whose full set is too large to enumerate
RECURSIVE RandTree(_)
RandTree(d) ==
  IF d = 0 \/ RandomElement(1..5) = 1 THEN Lf(RandomElement(LeafKinds \ {"FGROUP"}))
  ELSE LET o == RandomElement((IF Suffix THEN {"AND","AND2","OR","OR2","NOT","MUST","MUST_NOT","FUZZY","BOOST"}
                                         ELSE {"AND","AND2","OR","OR2","NOT","MUST","MUST_NOT"})
                              \cup (IF "FGROUP" \in LeafKinds THEN {"FGROUP"} ELSE {})) IN
       CASE o \in {"AND","OR","AND2","OR2"} -> Bi(IF o \in {"AND","AND2"} THEN "AND" ELSE "OR", RandTree(d - 1), RandTree(d - 1))
         [] o = "FUZZY" -> Sx(o, RandTree(d - 1), RandomElement({"none","int","zint"}))
         [] o = "BOOST" -> Sx(o, RandTree(d - 1), RandomElement({"none","int","float"}))
         [] o = "FGROUP" -> LET a == RandTree(d - 1) IN IF GroupOk(a) THEN Un(o, a) ELSE a
         [] OTHER -> Un(o, RandTree(d - 1))
AllTrees == IF Sample = 0 THEN TreesTo(Depth) ELSE {}
Chosen == IF Sample = 0 THEN SetToSeq(AllTrees) ELSE [i \in 1..Sample |-> RandTree(Depth)]
\* one output line per tree (a group of cases); the harness flattens the groups
AllGroups == [n \in 1..Len(Chosen) |-> [n |-> n, cases |-> CasesOf(Chosen[n], n)]]

VARIABLE x
Init == x = 0
Next == FALSE /\ x' = x
Spec == Init /\ [][Next]_x
Post == /\ TLCGet("stats").diameter >= 0
        /\ ndJsonSerialize(OutFile, AllGroups)
        /\ PrintT("GENERATED " \o ToJson([trees |-> Len(Chosen), space |-> Cardinality(AllTrees)]))
=======================================================================
