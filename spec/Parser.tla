---------------------------- MODULE Parser ----------------------------
(* MECH: the shift-reduce loop of parse.go:58-127 as a transition system.                    *)
(* One action per loop iteration, except that shifting a terminal is split into the reduce(s) *)
(* performed before an implicit AND (ImplAndReduce, parse.go:99-104) and the push itself      *)
(* (ShiftT), because the implementation can fail between them.                                *)
(* The lexer is the environment: Lex supplies the next token (lazily), so the same module     *)
(* serves exhaustive exploration (MC_Parser), generation (-simulate) and trace validation.    *)
EXTENDS Reduce, TLC

CONSTANTS Alphabet,   \* token types the environment may supply (terminal kinds and non-terminals)
          MaxTok,     \* bound on the number of tokens before EOF
          DFs         \* default-field settings explored; "" = none

VARIABLES stack,   \* parser.stack
          nts,     \* parser.nonTerminals (types only)
          la,      \* token returned by the last Peek, or NoTok when it has been consumed
          hist,    \* every token the lexer has produced so far (the input, as far as it was read)
          status,  \* "run" | "accept" | "error" (parse failed) | "invalid" (Validate failed)
          result,  \* the returned expression once status = "accept"
          df,      \* parser.defaultField
          steps,   \* loop iterations so far
          popped   \* elements popped by reduce() so far
vars == <<stack, nts, la, hist, status, result, df, steps, popped>>

NoTok  == [t |-> "NONE", v |-> "", pv |-> ""]
EofTok == [t |-> "EOF", v |-> "EOF", pv |-> ""]
NoTree == [op |-> "NIL"]

Top(s) == s[Len(s)]

\* the text (value) a generated token of a kind carries at input position i - the Go harness
\* concretises with the same scheme (harness/pools.go), so trees are comparable field by field
TokVal(kind, i) ==
  CASE kind = "word"   -> CASE i % 4 = 1 -> "w*" \o ToString(i)                                  \* typed w\*1: an escaped wildcard
                            [] i % 4 = 2 -> "w" \o ToString(i) \o ":"                          \* typed w2\: : ends in an escaped colon
                            [] i % 4 = 3 -> "w(" \o ToString(i)                                  \* typed w\(3: an escaped parenthesis
                            [] OTHER     -> "w" \o ToString(i)
    [] kind = "quoted" -> CASE i % 5 = 1 -> "q*" \o ToString(i)                                  \* "q*1" - not a pattern
                            [] i % 5 = 2 -> "q " \o ToString(i)
                            [] i % 5 = 3 -> "/q" \o ToString(i) \o "/"                            \* "/q3/" - not a regexp
                            [] i % 5 = 4 -> "it's " \o ToString(i)                               \* "it's 4" - the other quote character inside
                            [] OTHER     -> ToString(i)                                          \* "5" - not a number
    [] kind = "wild"   -> IF i % 2 = 0 THEN "w" \o ToString(i) \o "\\\\*" ELSE "w" \o ToString(i) \o "*"   \* w2\\* : an escaped backslash, then a wildcard
    [] kind = "star"   -> "*"
    [] kind = "regexp" -> "/r" \o ToString(i) \o "/"
    [] kind = "int"    -> ToString(10 + i)
    [] kind = "zint"   -> "0"
    [] kind = "nint"   -> "-" \o ToString(10 + i)
    [] kind = "float"  -> ToString(i) \o ".5"
    [] kind = "zfloat" -> "0.0"
    [] kind = "nfloat" -> "-" \o ToString(i) \o ".5"
    [] OTHER           -> kind
MkTok(kind, i) == [t |-> kind, v |-> TokVal(kind, i), pv |-> IF kind \in NumKinds THEN TokVal(kind, i) ELSE ""]

Init == /\ stack = <<>> /\ nts = <<"START">> /\ la = NoTok /\ hist = <<>>
        /\ status = "run" /\ result = NoTree /\ df \in DFs /\ steps = 0 /\ popped = 0

\* ---- environment: lex.Peek returns the next token -------------------------------------------
Lex == /\ status = "run" /\ la = NoTok
       /\ \/ /\ Len(hist) < MaxTok
             /\ \E kind \in Alphabet : la' = MkTok(kind, Len(hist) + 1)
             /\ hist' = Append(hist, la')
          \/ la' = EofTok /\ UNCHANGED hist
       /\ UNCHANGED <<stack, nts, status, result, df, steps, popped>>

\* ---- parser actions, parameterised by nothing: they read la --------------------------------
AcceptCond == la.t = "EOF" /\ Len(stack) = 1          \* parse.go:191 shouldAccept

\* parse.go:74-77 single term with a default field
Finalise(e) == IF df # "" /\ IsLeaf(e) THEN MkEq(ColLeaf(df), e) ELSE e

Accept ==
  /\ status = "run" /\ la # NoTok /\ AcceptCond
  /\ IF IsExpI(stack[1])
     THEN LET f == Finalise(stack[1].e) IN
          IF Valid(f) THEN status' = "accept" /\ result' = f
                      ELSE status' = "invalid" /\ UNCHANGED result
     ELSE status' = "error" /\ UNCHANGED result
  /\ steps' = steps + 1
  /\ UNCHANGED <<stack, nts, la, hist, df, popped>>

ShiftNT ==
  /\ status = "run" /\ la # NoTok /\ ~AcceptCond
  /\ ~IsTermKind(la.t) /\ ShouldShift(Top(nts), la.t)
  /\ stack' = Append(stack, TokItem(la.t)) /\ nts' = Append(nts, la.t)
  /\ la' = NoTok /\ steps' = steps + 1
  /\ UNCHANGED <<hist, status, result, df, popped>>

NeedImplAnd == Len(stack) > 0 /\ IsExpI(Top(stack))

\* parse.go:99 - `for !p.shouldShift(implAnd) { p.reduce() }`, one reduce per action
ImplAndReduce ==
  /\ status = "run" /\ IsTermKind(la.t) /\ ~AcceptCond
  /\ NeedImplAnd /\ ~ShouldShift(Top(nts), "AND")
  /\ LET r == ReduceStack(stack, df) IN
     IF r.ok THEN /\ stack' = r.stack /\ nts' = SubSeq(nts, 1, Len(nts) - r.drop)
                  /\ popped' = popped + r.k /\ UNCHANGED status
             ELSE /\ status' = "error" /\ popped' = popped + Len(stack) /\ UNCHANGED <<stack, nts>>
  /\ UNCHANGED <<la, hist, result, df, steps>>

ShiftT ==
  /\ status = "run" /\ IsTermKind(la.t) /\ ~AcceptCond
  /\ IF NeedImplAnd
     THEN /\ ShouldShift(Top(nts), "AND")
          /\ stack' = stack \o <<TokItem("AND"), ExpItem(LeafOfTok(la))>>
          /\ nts' = Append(nts, "AND")
     ELSE /\ stack' = Append(stack, ExpItem(LeafOfTok(la)))
          /\ UNCHANGED nts
  /\ la' = NoTok /\ steps' = steps + 1
  /\ UNCHANGED <<hist, status, result, df, popped>>

Reduce ==
  /\ status = "run" /\ la # NoTok /\ ~AcceptCond
  /\ ~ShouldShift(Top(nts), la.t)
  /\ LET r == ReduceStack(stack, df) IN
     IF r.ok THEN /\ stack' = r.stack /\ nts' = SubSeq(nts, 1, Len(nts) - r.drop)
                  /\ popped' = popped + r.k /\ UNCHANGED status
             ELSE /\ status' = "error" /\ popped' = popped + Len(stack) /\ UNCHANGED <<stack, nts>>
  /\ steps' = steps + 1
  /\ UNCHANGED <<la, hist, result, df>>

Finished == status # "run" /\ UNCHANGED vars      \* lets TLC's deadlock check mean "stuck while running"
Next == Lex \/ Accept \/ ShiftNT \/ ImplAndReduce \/ ShiftT \/ Reduce \/ Finished
Spec == Init /\ [][Next]_vars /\ WF_vars(Next)

\* ---- model-level properties (C01: no panic, termination, polynomial work) --------------------
TokCount(s) == Len(SelectSeq(s, IsTokI))
\* drop(nonTerminals, i) (reduce.go:495) never slices below the START marker: the non-terminal stack
\* is START followed by exactly the tokens that are on the parse stack, in order
CountInv == Len(nts) = TokCount(stack) + 1
NtsMirror == LET ts == SelectSeq(stack, IsTokI) IN
             /\ nts[1] = "START" /\ \A i \in 1..Len(ts) : nts[i+1] = ts[i].t
\* the parse stack never holds two expressions side by side except transiently below... (checked)
Running == status = "run"
\* variant: unread input dominates, then the stack; a held lookahead counts once more
Pending == (MaxTok - Len(hist)) + (IF la = NoTok \/ la.t = "EOF" THEN 0 ELSE 1)
Measure == (IF la.t = "EOF" THEN 0 ELSE 4 * Pending + 1) + Len(stack) + (IF la = NoTok THEN 1 ELSE 0)
Progress == [][status' # "run" \/ Measure' < Measure]_vars
Terminates == <>(status # "run")
StepBound == steps <= 3 * Len(hist) + 3
PopBound  == popped <= 7 * (steps + Len(hist)) + 2 * Len(hist) + 1
Done == status # "run"
=======================================================================
