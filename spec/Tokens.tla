---------------------------- MODULE Tokens ----------------------------
(* MECH: token kinds and the precedence machinery of internal/lex/lex.go:37-152.        *)
(* REF : DocLevel, the documented table OR < AND < NOT < ^ < ~ < - < + (property C05).   *)
EXTENDS Integers, Sequences

\* non-terminal token types, named after lex.TokType without the leading T
NonTerminals == {"EQUAL","GREATER","LESS","COLON","PLUS","MINUS","TILDE","CARROT","NOT","AND","OR",
                 "RPAREN","LPAREN","LCURLY","RCURLY","TO","LSQUARE","RSQUARE"}

\* terminal kinds.  The lexer knows three (TLiteral, TQuoted, TRegexp); parseLiteral (parse.go:223)
\* splits TLiteral by the text of the token.  Numbers carry their sign because the boost reducer
\* depends on it (reduce.go toPositiveFloat).
TermKinds == {"word","quoted","wild","star","regexp","int","zint","nint","float","zfloat","nfloat"}
IntKinds   == {"int","zint","nint"}
FloatKinds == {"float","zfloat","nfloat"}
NumKinds   == IntKinds \cup FloatKinds
PosKinds   == {"int","float"}

IsTermKind(t) == t \in TermKinds

\* the iota order of lex.go:37-71 (lower number = binds tighter)
Prec == [ ERR |-> 0, EQUAL |-> 4, GREATER |-> 5, LESS |-> 6, COLON |-> 7, PLUS |-> 8, MINUS |-> 9,
          TILDE |-> 10, CARROT |-> 11, NOT |-> 12, AND |-> 13, OR |-> 14, RPAREN |-> 15,
          LPAREN |-> 16, LCURLY |-> 17, RCURLY |-> 18, TO |-> 19, LSQUARE |-> 20,
          RSQUARE |-> 21, EOF |-> 22, START |-> 23 ]

\* lex.HasLessPrecedence (lex.go:143): same type = left associative, except that a prefix operator
\* directly following the same prefix operator is shifted
HasLessPrecedence(curr, next) ==
  IF curr = next THEN curr \in {"NOT","PLUS","MINUS"} ELSE Prec[curr] > Prec[next]

\* parse.go:135 shouldShift; curr = top of the non-terminal stack, next = type of the lookahead
ShouldShift(curr, next) ==
  IF next \in {"EOF","ERR"} THEN FALSE
  ELSE IF IsTermKind(next) THEN TRUE
  ELSE IF next \in {"LSQUARE","LCURLY","LPAREN"} \/ curr \in {"LSQUARE","LCURLY","LPAREN"} THEN TRUE
  ELSE IF next \in {"RSQUARE","RCURLY"} THEN TRUE
  ELSE IF curr \in {"RPAREN","RSQUARE","RCURLY"} THEN FALSE
  ELSE HasLessPrecedence(curr, next)

\* REF: the documented precedence levels (higher binds tighter); leaves bind tightest
DocLevel(op) == CASE op = "OR" -> 1 [] op = "AND" -> 2 [] op = "NOT" -> 3 [] op = "BOOST" -> 4
                  [] op = "FUZZY" -> 5 [] op = "MUST_NOT" -> 6 [] op = "MUST" -> 7 [] OTHER -> 9
=======================================================================
