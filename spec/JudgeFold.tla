--------------------------- MODULE JudgeFold ---------------------------
(* Verdicts for C15 on the REAL call logs of driver.Base.Render with tracing functions (harness fold-groups). *)
(* A line = one parsed tree with several renders: every operator traced, one removed, one overridden.         *)
EXTENDS Integers, Sequences, FiniteSets, TLC, Json
F == INSTANCE Fold

CONSTANTS ResFile, VerdictFile, Prop, Shards
Lines == ndJsonDeserialize(ResFile)

Fail(c, clause) == [prop |-> "C15", id |-> c.id, q |-> c.q, clause |-> clause, kf |-> "none"]

AllOps == {"AND","OR","EQUALS","LIKE","NOT","RANGE","MUST","MUST_NOT","BOOST","FUZZY","LIT","WILD","REGEXP",
           "GREATER","LESS","GREATER_EQ","LESS_EQ","IN","LIST"}
\* the render-function map of a run: every operator traced under its own name, one removed, or one relabelled
MapOf(run) == CASE run.mode = "all"     -> [o \in AllOps |-> o]
                [] run.mode = "removed" -> [o \in AllOps \ {run.mop} |-> o]
                [] run.mode = "over"    -> [o \in AllOps |-> IF o = run.mop THEN "X" \o o ELSE o]
                [] run.mode = "blank"   -> [o \in AllOps |-> IF o = run.mop THEN "BLANK" ELSE o]
                [] OTHER                -> [o \in AllOps |-> o]
\* an argument is the rendered child, wrapped in parentheses at most
ArgOk(x, bare) == x = bare \/ x = "(" \o bare \o ")"
CallOk(real, model) == real.op = model.op /\ real.ret = model.ret /\ ArgOk(real.l, model.lb) /\ ArgOk(real.r, model.rb)
CallsOk(real, model, n) == \A i \in 1..n : CallOk(real[i], model[i])
\* one render against the fold discipline (REF)
\* the k-th call returns an error (mop = k as text): Render fails without partial text; what was called until then is the fold
FailAt(run) == CHOOSE k \in 1..Len(run.calls) : ToString(k) = run.mop
RunFailOk(T, run) ==
  LET w == F!Fold(T, [o \in AllOps |-> o]) IN
  /\ run.outcome = "err" /\ run.out = ""
  /\ Len(run.calls) >= 1 /\ ToString(Len(run.calls)) = run.mop /\ Len(run.calls) <= Len(w.calls)
  /\ CallsOk(run.calls, w.calls, Len(run.calls) - 1)
  /\ LET real == run.calls[Len(run.calls)]  model == w.calls[Len(run.calls)] IN
     real.op = model.op /\ ArgOk(real.l, model.lb) /\ ArgOk(real.r, model.rb)
RunOk(T, run) ==
  IF run.mode = "undefined" THEN run.outcome = "err" /\ run.out = ""     \* an operator nobody registered: error, no partial SQL
  ELSE IF run.mode = "errat" THEN RunFailOk(T, run)
  ELSE
  LET m == MapOf(run)
      w == F!Fold(T, m) IN
  IF w.ok THEN run.outcome = "ok" /\ Len(run.calls) = Len(w.calls) /\ CallsOk(run.calls, w.calls, Len(w.calls)) /\ run.out = w.ret
  ELSE \* an operator of the tree has no function: error, no partial SQL; the calls made before are a prefix of the fold
       /\ run.outcome = "err" /\ run.out = ""
       /\ Len(run.calls) <= Len(w.calls) /\ CallsOk(run.calls, w.calls, Len(run.calls))
\* conformance with the MECH reading of Fold.tla: exactly the parenthesisation Base.Render uses today (drift, not a verdict)
Strip(c) == [op |-> c.op, l |-> c.l, r |-> c.r, ret |-> c.ret]
RunExact(T, run) ==
  run.mode \in {"undefined", "errat"} \/
  LET w == F!Fold(T, MapOf(run)) IN
  Len(run.calls) <= Len(w.calls) /\ \A i \in 1..Len(run.calls) : run.calls[i] = Strip(w.calls[i])

RECURSIVE HasSuffixOp(_)
HasSuffixOp(T) == CASE T.op \in {"LIT","WILD","REGEXP"} -> FALSE
                    [] T.op \in {"FUZZY","BOOST"} -> TRUE
                    [] T.op \in {"NOT","MUST","MUST_NOT"} -> HasSuffixOp(T.l)
                    [] T.op \in {"RANGE","IN"} -> FALSE
                    [] OTHER -> HasSuffixOp(T.l) \/ HasSuffixOp(T.r)

C15(c) ==
  LET bad == {i \in DOMAIN c.runs : ~RunOk(c.tree, c.runs[i])} IN
     (IF bad = {} THEN <<>> ELSE <<Fail(c, "Render does not fold the tree with the supplied functions (run " \o ToString(CHOOSE i \in bad : TRUE) \o ")")>>)
  \* "contains a fuzzy or boost operator anywhere": in the returned tree, or as a ~ / ^ token of the query text (a parser that
  \* drops the operator on the way must not make the query renderable)
  \o (IF (HasSuffixOp(c.tree) \/ c.suffix_tok) => (c.obs.sql.out = "err" /\ c.obs.sqlp.out = "err" /\ c.obs.sql.empty /\ c.obs.sqlp.empty) THEN <<>>
      ELSE <<Fail(c, "ToPostgres / ToParameterizedPostgres rendered a query with a fuzzy or boost operator")>>)
Judge(c) == C15(c)

VARIABLES sh, n, last, fails, kfs, nfail, nkf, judged, ndrift
vars == <<sh, n, last, fails, kfs, nfail, nkf, judged, ndrift>>
Open(f)  == SelectSeq(f, LAMBDA v : v.kf = "none")
Known(f) == SelectSeq(f, LAMBDA v : v.kf # "none")
Init == sh \in 0..(Shards - 1) /\ n = sh /\ last = <<>> /\ fails = <<>> /\ kfs = <<>> /\ nfail = 0 /\ nkf = 0 /\ judged = 0 /\ ndrift = 0
Next == /\ n < Len(Lines) + Shards /\ n' = n + Shards /\ UNCHANGED sh
        /\ last' = IF n < Len(Lines) THEN Judge(Lines[n + 1]) ELSE <<>>
        /\ fails' = IF Len(fails) >= 100 THEN fails ELSE fails \o Open(last)
        /\ kfs' = IF Len(kfs) >= 100 THEN kfs ELSE kfs \o Known(last)
        /\ nfail' = nfail + Len(Open(last)) /\ nkf' = nkf + Len(Known(last))
        /\ judged' = judged + (IF n < Len(Lines) THEN Len(Lines[n + 1].runs) ELSE 0)
        /\ ndrift' = ndrift + (IF n < Len(Lines) THEN Cardinality({i \in DOMAIN Lines[n + 1].runs : ~RunExact(Lines[n + 1].tree, Lines[n + 1].runs[i])}) ELSE 0)
Spec == Init /\ [][Next]_vars
Report == n >= Len(Lines) + Shards =>
            /\ PrintT("JUDGED " \o ToJson([prop |-> Prop, shard |-> sh, judged |-> judged, failures |-> nfail, known |-> nkf, drift |-> ndrift]))
            /\ ndJsonSerialize(VerdictFile \o "." \o ToString(sh), fails \o kfs)
=========================================================================
