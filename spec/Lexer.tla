----------------------------- MODULE Lexer -----------------------------
(* MECH: internal/lex/lex.go as a transition system over symbol sequences.                     *)
(* An input is a sequence of symbols of a finite alphabet that has one representative for every *)
(* `case` of the lexer (and a byte width, which only the harness needs: positions here count      *)
(* symbols, the harness converts byte offsets).  State = the fields of lex.Lexer; actions = the   *)
(* two public calls, Next and Peek (Peek runs Next on a copy, lex.go:195).                        *)
EXTENDS Integers, Sequences, TLC

\* ---- the alphabet --------------------------------------------------------------------------
Letters  == {"A","N","D","O","R","T","o","r","x","EACUTE","CJK"}     \* unicode.IsLetter
Digits   == {"d1","UDIGIT"}                                            \* unicode.IsDigit
Alnum    == Letters \cup Digits \cup {"UND"}                           \* lex.go:375 isAlphaNumeric
Wild     == {"STAR","QM"}
Spaces   == {"SP","TAB","CR","NL"}
SymTok   == [LP |-> "LPAREN", RP |-> "RPAREN", LS |-> "LSQUARE", RS |-> "RSQUARE", LC |-> "LCURLY", RC |-> "RCURLY",
             COLON |-> "COLON", PLUS |-> "PLUS", EQ |-> "EQUAL", GT |-> "GREATER", TILDE |-> "TILDE",
             CARET |-> "CARROT", LT |-> "LESS"]                        \* lex.go:73 symbols
Symbols  == DOMAIN SymTok
\* cannot start a token.  UREPL = U+FFFD, validly encoded (what a decoder puts for an invalid byte, but a character of its own).
\* USYM = U+203A and LSEP = U+2028: non-letters whose code point modulo 256 is an ASCII
\* symbol (":" and "("), so truncating a rune to a byte would turn them into operators
Others   == {"HASH","SEMI","PCT","COMMA","NUL","BAD","NBSP","BANG","AMP","PIPE","AT","USYM","LSEP","DEL","CTRL","UREPL","LDQ","RDQ","USUP","UFRAC"}
AllSyms  == Alnum \cup Wild \cup Spaces \cup Symbols \cup Others \cup {"BS","MINUS","DOT","DQ","SQ","SL"}

Upper(c) == CASE c = "o" -> "O" [] c = "r" -> "R" [] OTHER -> c
UpperSeq(w) == [i \in 1..Len(w) |-> Upper(w[i])]
Keyword(w) == CASE UpperSeq(w) = <<"A","N","D">> -> "AND" [] UpperSeq(w) = <<"O","R">> -> "OR"
                [] UpperSeq(w) = <<"N","O","T">> -> "NOT" [] UpperSeq(w) = <<"T","O">> -> "TO" [] OTHER -> "LITERAL"

\* the rune at 0-based position p, or "EOF" (lex.go:335 next at the end of the input)
At(inp, p) == IF p < Len(inp) THEN inp[p + 1] ELSE "EOF"

\* ---- the scanning loops, as functions of the position --------------------------------------------
\* each returns [e |-> position after the scan, eof |-> whether next() was called at the end of the input,
\*              ok |-> FALSE when the scan ends in errorf]
RECURSIVE SkipSpace(_,_), WordScan(_,_), PhraseScan(_,_,_), RegScan(_,_)
SkipSpace(inp, p) == IF At(inp, p) \in Spaces THEN SkipSpace(inp, p + 1) ELSE p          \* lex.go:204 lexSpace
WordScan(inp, p) ==                                                                       \* lex.go:284 lexWord
  LET r == At(inp, p) IN
  IF r = "EOF" THEN [e |-> p, eof |-> TRUE, ok |-> TRUE]
  ELSE IF r \in Alnum \cup Wild \cup {"DOT","MINUS"} THEN WordScan(inp, p + 1)
  ELSE IF r = "BS" THEN (IF p + 1 < Len(inp) THEN WordScan(inp, p + 2) ELSE [e |-> Len(inp), eof |-> TRUE, ok |-> TRUE])
  ELSE [e |-> p, eof |-> FALSE, ok |-> TRUE]
PhraseScan(inp, p, open) ==                                                               \* lex.go:247 lexPhrase
  LET r == At(inp, p) IN
  IF r = "EOF" THEN [e |-> p, eof |-> TRUE, ok |-> FALSE]
  ELSE IF r = open THEN [e |-> p + 1, eof |-> FALSE, ok |-> TRUE]
  ELSE PhraseScan(inp, p + 1, open)
RegScan(inp, p) ==                                                                        \* lex.go:264 lexRegexp
  LET r == At(inp, p) IN
  IF r = "EOF" THEN [e |-> p, eof |-> TRUE, ok |-> FALSE]
  ELSE IF r = "BS" THEN (IF p + 1 < Len(inp) THEN RegScan(inp, p + 2) ELSE [e |-> Len(inp), eof |-> TRUE, ok |-> FALSE])
  ELSE IF r = "SL" THEN [e |-> p + 1, eof |-> FALSE, ok |-> TRUE]
  ELSE RegScan(inp, p + 1)

\* ---- lexer state and one call of Next ---------------------------------------------------------
\* L = [inp, pos, start, atEOF, cur];  a token is [typ, s, e] (text = inp[s+1..e]); ERR carries why
Tok(typ, s, e) == [typ |-> typ, s |-> s, e |-> e]
NewLexer(inp) == [inp |-> inp, pos |-> 0, start |-> 0, atEOF |-> FALSE, cur |-> Tok("ERR", 0, 0)]   \* zero Token has Typ 0 = TErr

Emit(L, typ, s, sc) == [L EXCEPT !.pos = sc.e, !.start = sc.e, !.atEOF = L.atEOF \/ sc.eof, !.cur = Tok(typ, s, sc.e)]
Errorf(L, s, sc)    == [inp |-> <<>>, pos |-> 0, start |-> 0, atEOF |-> L.atEOF \/ sc.eof, cur |-> Tok("ERR", s, s)]

DoNext(L) ==
  LET inp == L.inp
      p1 == SkipSpace(inp, L.pos)
      r == At(inp, p1)
  IN
  IF r = "EOF" THEN [L EXCEPT !.pos = Len(inp), !.atEOF = TRUE, !.cur = Tok("EOF", L.pos, L.pos)]
  ELSE IF r \in Alnum \cup Wild \cup {"BS"} THEN
         LET sc == WordScan(inp, p1) IN Emit(L, Keyword(SubSeq(inp, p1 + 1, sc.e)), p1, sc)
  ELSE IF r \in Symbols THEN Emit(L, SymTok[r], p1, [e |-> p1 + 1, eof |-> FALSE])
  ELSE IF r = "MINUS" THEN
         IF At(inp, p1 + 1) \in Digits
         THEN LET sc == WordScan(inp, p1) IN Emit(L, Keyword(SubSeq(inp, p1 + 1, sc.e)), p1, sc)
         ELSE Emit(L, "MINUS", p1, [e |-> p1 + 1, eof |-> (p1 + 1 >= Len(inp))])
  ELSE IF r \in {"DQ","SQ"} THEN
         LET sc == PhraseScan(inp, p1 + 1, r) IN IF sc.ok THEN Emit(L, "QUOTED", p1, sc) ELSE Errorf(L, p1, sc)
  ELSE IF r = "SL" THEN
         LET sc == RegScan(inp, p1 + 1) IN IF sc.ok THEN Emit(L, "REGEXP", p1, sc) ELSE Errorf(L, p1, sc)
  ELSE Errorf(L, p1, [eof |-> FALSE])

\* lex.go:195 Peek: value receiver, so the lexer itself is untouched
DoPeek(L) == IF L.cur.typ = "EOF" THEN L.cur ELSE DoNext(L).cur

\* ---- transition system: a client calling Next and Peek in any order ----------------------------
CONSTANTS Alphabet, MaxLen, MaxCalls
VARIABLES lx,      \* the lexer
          inp0,    \* the original input (lx.inp is truncated by errorf)
          out,     \* the calls made so far, as the records Segmentation.tla reads
          calls    \* number of calls so far
lvars == <<lx, inp0, out, calls>>

Inputs == UNION {[1..n -> Alphabet] : n \in 0..MaxLen}
StateOf(L) == <<L.pos, L.start, L.atEOF, Len(L.inp)>>
CallRec(c, t, before, after) == [c |-> c, typ |-> t.typ, s |-> t.s, e |-> t.e, text_ok |-> TRUE, b |-> before, a |-> after]
Init == /\ inp0 \in Inputs /\ lx = NewLexer(inp0) /\ out = <<>> /\ calls = 0
NextCall == /\ calls < MaxCalls
            /\ lx' = DoNext(lx)
            /\ out' = Append(out, CallRec("next", DoNext(lx).cur, StateOf(lx), StateOf(DoNext(lx))))
            /\ calls' = calls + 1 /\ UNCHANGED inp0
PeekCall == /\ calls < MaxCalls
            /\ out' = Append(out, CallRec("peek", DoPeek(lx), StateOf(lx), StateOf(lx)))
            /\ calls' = calls + 1 /\ UNCHANGED <<lx, inp0>>
Next == NextCall \/ PeekCall
Spec == Init /\ [][Next]_lvars

\* ---- MECH-level sanity (termination measure of the scanning loops is structural: every recursive call
\* moves p forward, and Len(inp) bounds it) ---------------------------------------------------------
TypeOK == lx.pos \in 0..Len(lx.inp) /\ lx.start \in 0..Len(lx.inp) /\ (lx.atEOF => lx.pos = Len(lx.inp))
========================================================================
