---------------------------- MODULE GenSql ----------------------------
(* Generator + REF for the leaf level of C03 / C04: every field-scoped leaf form over typed value pools, *)
(* with what the query means (ref) and the query's values in order (vals).  The query text is built    *)
(* here, so the harness only types it.  Values: [ty, text (spelling in the query), n (value*10^6),      *)
(* dp (decimals), codes (bytes of a string value), exact].                                              *)
EXTENDS Integers, Sequences, FiniteSets, TLC, Json, SequencesExt

CONSTANTS OutFile, Tier

V(ty, text, n, dp, codes) == [ty |-> ty, text |-> text, n |-> n, dp |-> dp, codes |-> codes, exact |-> TRUE]
Ints == << V("int", "-3", -3000000, 0, <<>>), V("int", "0", 0, 0, <<>>), V("int", "5", 5000000, 0, <<>>),
           V("int", "12", 12000000, 0, <<>>), V("int", "100", 100000000, 0, <<>>) >>
Decs == << V("float", "0.5", 500000, 1, <<>>), V("float", "1.5", 1500000, 1, <<>>), V("float", "2.25", 2250000, 2, <<>>),
           V("float", "0.125", 125000, 3, <<>>), V("float", "234.567891", 234567891, 6, <<>>),    \* more digits than a float32 holds
           V("float", "-1.5", -1500000, 1, <<>>), V("float", "-99.999999", -99999999, 6, <<>>) >>
Strs == << V("str", "a", 0, 0, <<97>>), V("str", "b", 0, 0, <<98>>), V("str", "\"it's\"", 0, 0, <<105,116,39,115>>),
           V("str", "\"x''y\"", 0, 0, <<120,39,39,121>>), V("str", "ab", 0, 0, <<97,98>>), V("str", "B", 0, 0, <<66>>),
           V("str", "\"a b\"", 0, 0, <<97,32,98>>),
           V("str", "\"a,b\"", 0, 0, <<97,44,98>>), V("str", "x_y", 0, 0, <<120,95,121>>), V("str", "\"10\"", 0, 0, <<49,48>>),
           V("str", "\"x\\\"", 0, 0, <<120,92>>) >>
Star == V("star", "*", 0, 0, <<42>>)
\* wildcard patterns: 42 = *  63 = ?
Pats == << V("pat", "x*", 0, 0, <<120,42>>), V("pat", "*x", 0, 0, <<42,120>>), V("pat", "x?y", 0, 0, <<120,63,121>>),
           V("pat", "?", 0, 0, <<63>>), V("pat", "*", 0, 0, <<42>>), V("pat", "x*y*", 0, 0, <<120,42,121,42>>),
           V("pat", "a_b*", 0, 0, <<97,95,98,42>>), V("pat", "x.y*", 0, 0, <<120,46,121,42>>),
           V("pat", "x??y", 0, 0, <<120,63,63,121>>), V("pat", "x\\\\*", 0, 0, <<120,92,92,42>>), V("pat", "a\\*b*", 0, 0, <<97,92,42,98,42>>), V("pat", "b?\\*", 0, 0, <<98,63,92,42>>), V("pat", "?x?", 0, 0, <<63,120,63>>), V("pat", "*x*y*", 0, 0, <<42,120,42,121,42>>) >>
Pool(ty) == CASE ty = "int" -> Ints [] ty = "float" -> Decs [] ty = "str" -> Strs
Small(s) == IF Tier = "quick" THEN SubSeq(s, 1, IF Len(s) > 5 THEN 5 ELSE Len(s)) ELSE s

\* probe values of a column: every region cut out by the pool's constants
NumProbes == << -4000000, -3000000, -2999000, -1500000, -1499000, -1000000, 0, 1000, 124000, 125000, 126000, 120000, 130000,
                500000, 1000000, 1500000, 2240000, 2250000, 2260000, 4999000, 5000000, 5001000, 11000000, 12000000,
                13000000, 99000000, 100000000, 101000000, 234567000, 234567891, 234568000, -100000000, -99999999, -99999000 >>
StrProbes == << <<120,39,39,121>>, <<120,39,121>>, <<>>, <<65>>, <<66>>, <<97>>, <<97,32>>, <<97,32,98>>, <<97,44,98>>, <<97,97>>, <<97,98>>, <<97,98,99>>, <<98>>, <<99>>,
                <<105,116,39,115>>, <<120>>, <<120,121>>, <<120,97,121>>, <<120,95,121>>, <<120,46,121>>, <<120,122,121>>, <<97,120>>, <<121,120>>,
                <<97,95,98>>, <<97,88,98>>, <<97,88,98,99>>, <<49>>, <<49,48>>, <<57>>, <<42>>, <<120,121,122,121>>,
                <<120,92>>, <<120,92,97>>, <<120,92,92>>, <<120,42>>, <<97,42,98>>, <<97,42,98,99>>, <<97,37,98>>, <<97,37,98,99>>, <<97,120,98>>, <<98,120,42>>, <<98,120,37>>, <<98,42>> >>
ProbeVals(ty) == IF ty = "str" THEN [i \in DOMAIN StrProbes |-> [ty |-> "str", n |-> 0, codes |-> StrProbes[i]]]
                 ELSE [i \in DOMAIN NumProbes |-> [ty |-> "num", n |-> NumProbes[i], codes |-> <<>>]]
\* what the parameter list must carry for a value: same kind, wildcard patterns translated (* -> %, ? -> _)
\* (an escaped wildcard - backslash 92 before it - is a literal character and stays as written)
RECURSIVE Translate(_)
Translate(c) == IF c = <<>> THEN <<>>
                ELSE IF c[1] = 92 /\ Len(c) >= 2 THEN <<c[1], c[2]>> \o Translate(SubSeq(c, 3, Len(c)))
                ELSE <<IF c[1] = 42 THEN 37 ELSE IF c[1] = 63 THEN 95 ELSE c[1]>> \o Translate(Tail(c))
ParamOf(v) == IF v.ty = "pat" THEN [v EXCEPT !.ty = "str", !.codes = Translate(v.codes)] ELSE v

OpSym(op) == CASE op = "=" -> ":" [] op = ">" -> ":>" [] op = ">=" -> ":>=" [] op = "<" -> ":<" [] op = "<=" -> ":<="
Open(inc) == IF inc THEN "[" ELSE "{"
Close(inc) == IF inc THEN "]" ELSE "}"
KindOf(v) == IF v.ty = "float" \/ v.ty = "int" THEN "num" ELSE v.ty

Case(form, q, ref, vals, pty, alt) ==
  [kind |-> "leaf", form |-> form, q |-> q, alt |-> alt, ref |-> ref, vals |-> [i \in DOMAIN vals |-> ParamOf(vals[i])],
   field |-> <<102>>, probes |-> ProbeVals(pty)]

CmpCases(ty) ==
  LET vs == Small(Pool(ty)) IN
  {Case("cmp", "f" \o OpSym(op) \o vs[i].text, [form |-> "cmp", op |-> op, v |-> vs[i]], <<vs[i]>>,
        IF ty = "str" THEN "str" ELSE "num", "f" \o OpSym(op) \o vs[(i % Len(vs)) + 1].text)
     : op \in {"=", ">", ">=", "<", "<="}, i \in DOMAIN vs}

Bounds(ty) == Small(Pool(ty)) \o <<Star>>
RangeCases(ty) ==
  LET bs == Bounds(ty)
      other(b) == IF b.ty = "star" THEN b ELSE Pool(ty)[Len(Pool(ty))] IN
  {Case("range", "f:" \o Open(li) \o bs[i].text \o " TO " \o bs[j].text \o Close(hi),
        [form |-> "range", lo |-> bs[i], hi |-> bs[j], loinc |-> li, hiinc |-> hi],
        SelectSeq(<<bs[i], bs[j]>>, LAMBDA b : b.ty # "star"),
        IF ty = "str" THEN "str" ELSE "num",
        "f:" \o Open(li) \o other(bs[i]).text \o " TO " \o other(bs[j]).text \o Close(hi))
     : i \in DOMAIN bs, j \in DOMAIN bs, li \in BOOLEAN, hi \in BOOLEAN}

ListCases(ty) ==
  LET vs == Small(Pool(ty)) IN
  {Case("list", "f:(" \o vs[i].text \o " OR " \o vs[j].text \o ")", [form |-> "list", items |-> <<vs[i], vs[j]>>], <<vs[i], vs[j]>>,
        IF ty = "str" THEN "str" ELSE "num", "f:(" \o vs[j].text \o " OR " \o vs[i].text \o ")") : i \in DOMAIN vs, j \in DOMAIN vs}
  \cup {Case("list", "f:(" \o vs[1].text \o " OR " \o vs[2].text \o " OR " \o vs[3].text \o ")",
             [form |-> "list", items |-> <<vs[1], vs[2], vs[3]>>], <<vs[1], vs[2], vs[3]>>,
             IF ty = "str" THEN "str" ELSE "num", "f:(" \o vs[3].text \o " OR " \o vs[2].text \o " OR " \o vs[1].text \o ")")}
  \* the same list typed with parentheses inside: grouped to the right, to the left, every item alone, two pairs
  \cup {Case("list", "f:(" \o vs[1].text \o " OR (" \o vs[2].text \o " OR " \o vs[3].text \o "))",
             [form |-> "list", items |-> <<vs[1], vs[2], vs[3]>>], <<vs[1], vs[2], vs[3]>>,
             IF ty = "str" THEN "str" ELSE "num", "f:(" \o vs[3].text \o " OR (" \o vs[2].text \o " OR " \o vs[1].text \o "))"),
        Case("list", "f:((" \o vs[1].text \o " OR " \o vs[2].text \o ") OR " \o vs[3].text \o ")",
             [form |-> "list", items |-> <<vs[1], vs[2], vs[3]>>], <<vs[1], vs[2], vs[3]>>,
             IF ty = "str" THEN "str" ELSE "num", "f:((" \o vs[3].text \o " OR " \o vs[2].text \o ") OR " \o vs[1].text \o ")"),
        Case("list", "f:((" \o vs[1].text \o ") OR ((" \o vs[2].text \o ") OR (" \o vs[3].text \o ")))",
             [form |-> "list", items |-> <<vs[1], vs[2], vs[3]>>], <<vs[1], vs[2], vs[3]>>,
             IF ty = "str" THEN "str" ELSE "num", "f:((" \o vs[3].text \o ") OR ((" \o vs[2].text \o ") OR (" \o vs[1].text \o ")))"),
        Case("list", "f:((" \o vs[1].text \o " OR " \o vs[2].text \o ") OR (" \o vs[3].text \o " OR " \o vs[2].text \o "))",
             [form |-> "list", items |-> <<vs[1], vs[2], vs[3], vs[2]>>], <<vs[1], vs[2], vs[3], vs[2]>>,
             IF ty = "str" THEN "str" ELSE "num", "f:((" \o vs[3].text \o " OR " \o vs[2].text \o ") OR (" \o vs[1].text \o " OR " \o vs[2].text \o "))")}

\* a range with one integer and one decimal end, every bracket combination
MixedRangeCases ==
  LET is == Small(Ints)  ds == Small(Decs) IN
  UNION {{Case("range", "f:" \o Open(li) \o is[i].text \o " TO " \o ds[j].text \o Close(hi),
               [form |-> "range", lo |-> is[i], hi |-> ds[j], loinc |-> li, hiinc |-> hi], <<is[i], ds[j]>>, "num",
               "f:" \o Open(li) \o is[(i % Len(is)) + 1].text \o " TO " \o ds[(j % Len(ds)) + 1].text \o Close(hi)),
          Case("range", "f:" \o Open(li) \o ds[j].text \o " TO " \o is[i].text \o Close(hi),
               [form |-> "range", lo |-> ds[j], hi |-> is[i], loinc |-> li, hiinc |-> hi], <<ds[j], is[i]>>, "num",
               "f:" \o Open(li) \o ds[(j % Len(ds)) + 1].text \o " TO " \o is[(i % Len(is)) + 1].text \o Close(hi))}
         : i \in DOMAIN is, j \in DOMAIN ds, li \in BOOLEAN, hi \in BOOLEAN}
\* a value list mixing integers and decimals
MixedListCases ==
  LET is == Small(Ints)  ds == Small(Decs) IN
  {Case("list", "f:(" \o is[i].text \o " OR " \o ds[j].text \o " OR " \o is[(i % Len(is)) + 1].text \o ")",
        [form |-> "list", items |-> <<is[i], ds[j], is[(i % Len(is)) + 1]>>], <<is[i], ds[j], is[(i % Len(is)) + 1]>>, "num",
        "f:(" \o ds[j].text \o " OR " \o is[i].text \o " OR " \o ds[(j % Len(ds)) + 1].text \o ")") : i \in DOMAIN is, j \in DOMAIN ds}
\* a wildcard-looking word where no pattern is matched (a comparison, a range bound): it is that string, untranslated
WildStrs == << V("str", "x*", 0, 0, <<120,42>>), V("str", "b?", 0, 0, <<98,63>>) >>
WildCmpCases == {Case("cmp", "f" \o OpSym(op) \o WildStrs[i].text, [form |-> "cmp", op |-> op, v |-> WildStrs[i]], <<WildStrs[i]>>, "str",
                      "f" \o OpSym(op) \o WildStrs[(i % 2) + 1].text) : op \in {">", ">=", "<", "<="}, i \in DOMAIN WildStrs}
WildRangeCases == {Case("range", "f:" \o Open(inc) \o WildStrs[i].text \o " TO " \o Strs[5].text \o Close(inc),
                        [form |-> "range", lo |-> WildStrs[i], hi |-> Strs[5], loinc |-> inc, hiinc |-> inc], <<WildStrs[i], Strs[5]>>, "str",
                        "f:" \o Open(inc) \o Strs[1].text \o " TO " \o WildStrs[i].text \o Close(inc)) : i \in DOMAIN WildStrs, inc \in BOOLEAN}

\* every string of the pool at least once in an equality and as a lower range bound, whatever the tier thins
AllStrCases == {Case("cmp", "f:" \o Strs[i].text, [form |-> "cmp", op |-> "=", v |-> Strs[i]], <<Strs[i]>>, "str", "f:" \o Strs[(i % Len(Strs)) + 1].text) : i \in DOMAIN Strs}
               \cup {Case("range", "f:[" \o Strs[i].text \o " TO " \o Strs[2].text \o "]", [form |-> "range", lo |-> Strs[i], hi |-> Strs[2], loinc |-> TRUE, hiinc |-> TRUE],
                          <<Strs[i], Strs[2]>>, "str", "f:[" \o Strs[1].text \o " TO " \o Strs[i].text \o "]") : i \in DOMAIN Strs}

LikeCases == {Case("like", "f:" \o Pats[i].text, [form |-> "like", pat |-> Pats[i]], <<Pats[i]>>, "str",
                   "f:" \o Pats[(i % Len(Pats)) + 1].text) : i \in DOMAIN Pats}

\* integers beyond 2^53 (and beyond the 32 bit of TLC): no evaluation on rows, but the SQL must carry exactly that
\* number - the harness adds the exact value (key) of every numeric value and constant
Bigs == << V("int", "9007199254740993", 0, 0, <<>>), V("int", "1234567890123456789", 0, 0, <<>>), V("int", "-9007199254740995", 0, 0, <<>>) >>
BigCases == {Case("big", "f" \o OpSym(op) \o Bigs[i].text, [form |-> "big"], <<Bigs[i]>>, "num", "") : op \in {"=", ">", "<="}, i \in DOMAIN Bigs}
            \cup {Case("big", "f:[" \o Bigs[1].text \o " TO " \o Bigs[2].text \o "]", [form |-> "big"], <<Bigs[1], Bigs[2]>>, "num", ""),
                  Case("big", "f:(" \o Bigs[1].text \o " OR 5)", [form |-> "big"], <<Bigs[1], Ints[3]>>, "num", "")}
All == BigCases \cup CmpCases("int") \cup CmpCases("float") \cup CmpCases("str")
       \cup RangeCases("int") \cup RangeCases("float") \cup RangeCases("str")
       \cup ListCases("int") \cup ListCases("str") \cup LikeCases \cup MixedListCases \cup WildCmpCases \cup WildRangeCases \cup MixedRangeCases \cup AllStrCases
Cases == LET s == SetToSeq(All) IN [i \in DOMAIN s |-> [s[i] EXCEPT !.kind = "leaf"] @@ [id |-> i]]

VARIABLE x
Init == x = 0
Next == FALSE /\ x' = x
Spec == Init /\ [][Next]_x
Post == /\ TLCGet("stats").diameter >= 0
        /\ ndJsonSerialize(OutFile, Cases)
        /\ PrintT("GENERATED " \o ToJson([cases |-> Len(Cases)]))
=======================================================================
