-------------------------- MODULE MC_ExprJson --------------------------
(* Model-level C12 on the codec MECH: for every small tree over every leaf kind and every combination of the   *)
(* textual facts, (1) when every leaf has the kind the decoder infers (RoundTrip!Inferable) decoding the         *)
(* encoding gives back the identical tree, and (2) decoding is idempotent (a second round trip changes nothing,  *)
(* which is why re-encoding gives identical bytes).  One TLC state per tree.                                     *)
EXTENDS ExprJson, FiniteSets, TLC
RT == INSTANCE RoundTrip

\* f64ty / f64v: what the number is after a passage through float64 ("v" = unchanged, "v2" = low digits lost)
ProfN(op, ty, w, s, i, fty, fv) == [op |-> op, ty |-> ty, has_wild |-> w, slashed |-> s, intvalued |-> i, empty |-> FALSE, f64ty |-> fty, f64v |-> fv]
Prof(op, ty, w, s, i) == ProfN(op, ty, w, s, i, "", "")
LeafT(op, ty) == [op |-> op, ty |-> ty, v |-> "v", sg |-> "x"]
\* a leaf together with its profile: every combination that can exist for the kind
LP == {<<LeafT("LIT", "str"), Prof("LIT", "str", w, s, FALSE)>> : w \in BOOLEAN, s \in BOOLEAN}
      \cup {<<LeafT("WILD", "str"), Prof("WILD", "str", w, s, FALSE)>> : w \in BOOLEAN, s \in BOOLEAN}
      \cup {<<LeafT("REGEXP", "str"), Prof("REGEXP", "str", w, TRUE, FALSE)>> : w \in BOOLEAN}
      \cup {<<LeafT("LIT", "int"), ProfN("LIT", "int", FALSE, FALSE, FALSE, "int", fv)>> : fv \in {"v", "v2"}}
      \cup {<<LeafT("LIT", "float"), ProfN("LIT", "float", FALSE, FALSE, i, IF i THEN "int" ELSE "float", "v")>> : i \in BOOLEAN}
ColL == <<LeafT("LIT", "col"), Prof("LIT", "col", FALSE, FALSE, FALSE)>>
\* trees with their leaf profiles in enumeration order
Trees == {<<a[1], <<a[2]>>>> : a \in LP}
         \cup {<<[op |-> o, l |-> ColL[1], r |-> a[1]], <<ColL[2], a[2]>>>> : o \in {"EQUALS","LIKE","GREATER"}, a \in LP}
         \cup {<<[op |-> o, l |-> a[1], r |-> b[1]], <<a[2], b[2]>>>> : o \in {"AND","OR"}, a \in LP, b \in LP}
         \cup {<<[op |-> "NOT", l |-> a[1]], <<a[2]>>>> : a \in LP}
         \cup {<<[op |-> "FUZZY", l |-> a[1], p |-> "2"], <<a[2]>>>> : a \in LP}
         \cup {<<[op |-> "RANGE", l |-> ColL[1], lo |-> a[1], hi |-> b[1], inc |-> TRUE], <<ColL[2], a[2], b[2]>>>> : a \in LP, b \in LP}
         \cup {<<[op |-> "IN", l |-> ColL[1], items |-> <<a[1], b[1]>>], <<ColL[2], a[2], b[2]>>>> : a \in LP, b \in LP}

\* the profiles of the decoded tree: same texts, so same facts, but the kinds may have changed
DecProf(leaf, p) == [p EXCEPT !.op = DecLeaf(leaf, p).op, !.ty = DecLeaf(leaf, p).ty]
\* an integer range bound that float64 cannot hold (known finding C12-big-int-range-bound, visible in the model as well)
BigBound(T, ps) == T.op = "RANGE" /\ \E i \in {2, 3} : ps[i].ty = "int" /\ ps[i].f64v # "v"
VARIABLE t
Init == t \in Trees
Next == UNCHANGED t
Spec == Init /\ [][Next]_t
InferableRoundTrips == (RT!Inferable([leaves |-> t[2]]) /\ ~BigBound(t[1], t[2])) => RoundTripped(t[1], t[2]) = t[1]
\* a float that came back as an int is an int with integer text: its profile no longer says "float"
RECURSIVE LeafSeq(_)
LeafSeq(T) == CASE T.op \in JLeafOps -> <<T>>
                [] T.op \in {"NOT","MUST","MUST_NOT","FUZZY","BOOST"} -> LeafSeq(T.l)
                [] T.op = "RANGE" -> LeafSeq(T.l) \o LeafSeq(T.lo) \o LeafSeq(T.hi)
                [] T.op = "IN" -> LeafSeq(T.l) \o T.items
                [] OTHER -> LeafSeq(T.l) \o LeafSeq(T.r)
Idempotent == LET d == RoundTripped(t[1], t[2])
                  dl == LeafSeq(d)
                  \* the decoded numbers are exactly representable: a second passage through float64 changes nothing
                  ps == [i \in DOMAIN t[2] |-> [DecProf(LeafSeq(t[1])[i], t[2][i]) EXCEPT !.intvalued = FALSE, !.ty = dl[i].ty,
                                                                                             !.f64ty = dl[i].ty, !.f64v = dl[i].v]]
              IN RoundTripped(d, ps) = d
========================================================================
