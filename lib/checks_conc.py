"""C14: pure, deterministic, race-free - Concurrent.tla, trace validation of real goroutine runs under the race detector."""
import shutil, time
import glob, json, os, re, subprocess
from vlib import *
import vlib
from parserfam import repo_test_inputs, stage_gen_trees, stage_groups
import checks_parser

MC_CFG = """SPECIFICATION Spec
CONSTANTS
  G = {"g1","g2","g3"}
  Calls = {"a","b","c"}
  SeqResult <- MCSeq
  Shared0 = "s0"
  Broken = %s
  MaxDone = %d
INVARIANTS Deterministic SharedUnchanged
CONSTRAINT Bound
CHECK_DEADLOCK FALSE
"""
TRACE_CFG = """SPECIFICATION TraceSpec
CONSTANTS
  TraceFile = "trace.ndjson"
INVARIANTS Inv Report
CHECK_DEADLOCK FALSE
"""


def build_race_harness():
    src = os.path.join(VERIF, "harness")
    binp = vlib.HARNESS_BIN + "_race"
    if vlib.REPO != "/repo":
        src = os.path.join(WORKROOT, "harness_src_%d" % os.getpid())
        if not os.path.exists(src):
            raise Broken("race build: harness source copy missing")
    p = subprocess.run(["go", "build", "-race", "-tags", "verif", "-o", binp, "."], cwd=src, env=GOENV, stdout=subprocess.PIPE, stderr=subprocess.STDOUT, text=True)
    if p.returncode != 0:
        raise Broken("cannot build the race-instrumented harness:\n" + p.stdout[-1500:])
    return binp


def stage_tlaps(run, module, deps, name=None):
    """The TLAPS proof of the model's safety for ANY number of goroutines and calls (tlapm; the bounded result is MC_Concurrent's).
    A proof that does not go through is reported in the evidence as a model-level note: verdicts come from the real code."""
    name = name or "tlaps_" + module
    d = run.sub(name)
    for m in [module] + deps:
        shutil.copy(os.path.join(SPEC, m + ".tla"), d)
    t = time.time()
    try:
        p = subprocess.run(["timeout", "-s", "KILL", "600", "tlapm", "--threads", str(NPROC), module + ".tla"], cwd=d,
                           stdout=subprocess.PIPE, stderr=subprocess.STDOUT, text=True)
        out = p.stdout
    except OSError as e:
        out = str(e)
    m = re.search(r"All (\d+) obligations? proved", out)
    run.stage(name, obligations_proved=int(m.group(1)) if m else 0, all_proved=bool(m), secs=round(time.time() - t, 1))
    if not m:
        run.notes.append("MODEL: tlapm did not prove every obligation of %s: %s" % (module, out[-300:].replace("\n", " ")))
    shutil.rmtree(d, ignore_errors=True)


def check_C14(run):
    run.assumptions += [
        "TLC 1.8.0 and the CommunityModules Json module evaluate the specification correctly",
        "data races are observed by the Go race detector (go build -race) on the schedules that actually ran; the specification has no action "
        "for a race report, so a trace containing one is rejected",
        "results are compared by digest (tree dump / SQL text / parameters / nil-ness of the error; error texts are not compared); the shared state "
        "(shared expression values + size of the driver tables) is digested after every 10th call and after the last one",
    ]
    maxdone = 4 if run.tier == "quick" else 5
    # the design: every interleaving of Begin/End for 3 goroutines x 3 calls; and the deliberately wrong variant must fail
    d = run.sub("mc_concurrent")
    out, rc, secs = run.tlc(d, "MC_Concurrent", MC_CFG % ("FALSE", maxdone), workers=NPROC, timeout=1800)
    gen, dist = run.tlc_stats(out)
    err = run.tlc_error(out)
    run.states += dist
    run.transitions += gen
    run.stage("mc_concurrent", goroutines=3, calls=3, max_completed=maxdone, states=dist, transitions=gen, error=err, secs=round(secs, 1))
    if err or gen == 0:
        raise Broken("MC_Concurrent failed: %s" % (err or out[-500:]))
    out2, rc, secs = run.tlc(run.sub("mc_concurrent_broken"), "MC_Concurrent", MC_CFG % ("TRUE", maxdone), workers=1, timeout=600)
    if "Invariant SharedUnchanged is violated" not in out2 and "Invariant Deterministic is violated" not in out2:
        raise Broken("non-vacuity: the deliberately wrong variant of Concurrent.tla was not rejected")
    run.stage("mc_concurrent_broken_variant", rejected=True)
    stage_tlaps(run, "ConcurrentProof", ["Concurrent"])
    # corpus: the repository's test queries + generated queries covering every operator and leaf kind
    texts = repo_test_inputs()
    cases, g = stage_gen_trees(run, checks_parser.DEEP_KINDS, 2, ws=0, sample=150 if run.tier == "quick" else 1500)
    res, _, _ = stage_groups(run, cases)
    for line in open(res):
        for c in json.loads(line)["cases"]:
            if c["kind"] == "min":
                texts.append(c["res"]["q"])
    os.remove(res)
    corpus = os.path.join(run.work, "corpus.ndjson")
    with open(corpus, "w") as f:
        for q in texts:
            f.write(json.dumps(q) + "\n")
    # a second corpus of deeply nested queries only: many goroutines are then deep inside Parse / Render at the same time
    deep = ["NOT " * 150 + "a:b", "(" * 120 + "a:b AND c:d" + ")" * 120, "+(" * 100 + "x:[1 TO 5]" + ")" * 100, "a:b AND " * 150 + "c:d",
            "NOT(" * 140 + "a:(x OR y)" + ")" * 140, "-(" * 130 + "f:w*" + ")" * 130, "(a:b OR " * 110 + "c:d" + ")" * 110, "NOT " * 160 + "z"]
    deepcorpus = os.path.join(run.work, "corpus_deep.ndjson")
    with open(deepcorpus, "w") as f:
        for q in deep:
            f.write(json.dumps(q) + "\n")
    # a third corpus for an "option storm": all goroutines parse the same few queries with bare terms under four different
    # default fields, nothing else, in a tight loop
    storm = ["status:open AND (error OR \"timed out\") AND NOT retry* AND lvl:[1 TO 5]", "a b c", "x AND NOT y OR z~2", "\"p q\" r* /s/ 4"]
    # ... and queries whose letters and digits this process has never seen (a lazily filled table would be written by many goroutines)
    storm += ["title:%s%s AND n:[1 TO %d] %s*" % (chr(0x4e00 + 37 * i), chr(0x3042 + i), i + 2, chr(0x0430 + i)) for i in range(40)]
    storm += ["t%s:\u0663%d jo?n\\*s*" % (chr(0x00e0 + i), i) for i in range(20)]
    stormcorpus = os.path.join(run.work, "corpus_storm.ndjson")
    with open(stormcorpus, "w") as f:
        for q in storm:
            f.write(json.dumps(q) + "\n")
    racebin = build_race_harness()
    configs = [(4, 300), (16, 150), (16, 150)] if run.tier == "quick" else [(4, 800), (16, 400), (64, 150)] + [(8 + 8 * i, 200) for i in range(12)]
    configs = [(g, per, corpus, "") for g, per in configs] + ([(16, 40, deepcorpus, "")] if run.tier == "quick" else [(16, 100, deepcorpus, ""), (64, 40, deepcorpus, "")])
    configs += [(16, 300, stormcorpus, "parsedf,parsedf2,sqldf,sqlpdf")] if run.tier == "quick" else [(16, 1500, stormcorpus, "parsedf,parsedf2,sqldf,sqlpdf"), (64, 300, stormcorpus, "parsedf,parsedf2,sqldf,sqlpdf")]
    total_events, accepted = 0, 0
    for i, (g, per, corpus, kinds) in enumerate(configs):
        kargs = ["-kinds", kinds] if kinds else []
        td = run.sub("conc_%d" % i)
        trace = os.path.join(td, "trace.ndjson")
        env = dict(os.environ, GORACE="log_path=%s halt_on_error=0 exitcode=0" % os.path.join(td, "race"))
        # the sequential baseline and the concurrent phase run in two fresh processes
        seqf, concf = os.path.join(td, "seq.ndjson"), os.path.join(td, "conc.ndjson")
        p0 = subprocess.run([racebin, "conc", "-phase", "seq", "-corpus", corpus, "-out", seqf] + kargs, env=env, stdout=subprocess.PIPE, stderr=subprocess.PIPE, text=True, timeout=1800)
        p = subprocess.run([racebin, "conc", "-phase", "conc", "-corpus", corpus, "-g", str(g), "-per", str(per), "-seed", str(run.seed * 100 + i), "-out", concf] + kargs,
                           env=env, stdout=subprocess.PIPE, stderr=subprocess.PIPE, text=True, timeout=1800)
        if p.returncode != 0 and ("concurrent map" in p.stderr or "fatal error" in p.stderr) and p0.returncode == 0:
            # the Go runtime itself aborted the concurrent phase (unsynchronised map access ...): that is the observation
            run.failures.append({"prop": "C14", "clause": "the Go runtime aborted the concurrent calls: " + (re.search(r"fatal error: [^\n]*", p.stderr) or re.search(r".*", "unknown")).group(0),
                                 "q": "corpus %s, %d goroutines" % (os.path.basename(corpus), g), "detail": p.stderr[:2000],
                                 "_replay": {"pipeline": "conc", "g": g, "per": per, "seed": run.seed * 100 + i, "corpus": corpus, "race": True, "kinds": kinds,
                                             "queries": [json.loads(l) for l in open(corpus)]}})
            run.stage("conc_%d" % i, goroutines=g, calls_per_goroutine=per, aborted_by_runtime=True)
            continue
        if p.returncode != 0 or p0.returncode != 0:
            raise Broken("conc run failed: " + (p.stderr + p0.stderr)[-800:])
        cat_files([seqf, concf], trace)
        s = json.loads(re.search(r"SUMMARY (.*)", p.stdout).group(1))
        races = 0
        for rf in glob.glob(os.path.join(td, "race*")):
            races += open(rf).read().count("WARNING: DATA RACE")
        if races:
            with open(trace, "a") as f:
                f.write(json.dumps({"seq": 10 ** 9, "ev": "race", "g": "detector", "call": "", "res": str(races), "shared": ""}) + "\n")
        out, rc, secs = run.tlc(td, "TraceConc", TRACE_CFG, workers=1, timeout=1800)
        gen, dist = run.tlc_stats(out)
        run.states += dist
        run.transitions += gen
        ok = "TRACE-ACCEPTED" in out and not run.tlc_error(out)
        total_events += s["events"]
        run.evaluations += s["events"] // 2
        run.stage("conc_%d" % i, goroutines=g, calls_per_goroutine=per, events=s["events"], distinct_calls=s["calls"], shared_expressions=s["shared_expressions"],
                  race_reports=races, accepted_by_spec=ok, secs=round(secs, 1))
        if ok:
            accepted += 1
            run.traces += s["events"] // 2
            run.distinct += s["calls"]
        else:
            # TLC stopped at the first event that is no action of the specification (or an invariant failed)
            evs = [json.loads(l) for l in open(trace) if '"ev":"begin"' in l or '"ev":"end"' in l or '"ev":"race"' in l]
            at = min(max(dist - 1, 0), len(evs) - 1)
            e = evs[at]
            if races and e["ev"] == "race":
                clause = "the race detector reported %d data race(s)" % races
                report = "".join(open(rf).read() for rf in glob.glob(os.path.join(td, "race*")))[:3000]
            else:
                clause = "a concurrent call is not a step of the specification (result differs from the sequential run, or the shared state changed)"
                report = json.dumps(e)
            run.failures.append({"prop": "C14", "clause": clause, "q": "%s by %s" % (e.get("call"), e.get("g")), "detail": report,
                                 "_replay": {"pipeline": "conc", "g": g, "per": per, "seed": run.seed * 100 + i, "corpus": corpus, "race": bool(races), "kinds": kinds,
                                             "queries": [json.loads(l) for l in open(corpus)]}})
        if i == 0:
            run.add_sample({"kind": "events of real goroutines validated against Concurrent.tla", "first_events": [json.loads(l) for l in first_lines(trace, 400)[-4:]]})
    run.notes.append("corpus of %d queries (repository tests + generated, every operator and leaf kind) -> %d distinct calls; %d runs with up to %d goroutines, "
                     "seeded schedules (seed %d) with Gosched injection, under the race detector" % (len(texts), s["calls"], len(configs), max(c[0] for c in configs), run.seed))


def replay_conc(run, rp):
    # a race needs the same interleaving to show again, which cannot be forced: the detector's report is the evidence
    if rp.get("race"):
        return True
    racebin = build_race_harness()
    td = run.sub("replay_conc")
    trace = os.path.join(td, "trace.ndjson")
    seqf, concf = os.path.join(td, "seq.ndjson"), os.path.join(td, "conc.ndjson")
    e2 = dict(os.environ, GORACE="halt_on_error=0 exitcode=0")
    kargs = ["-kinds", rp["kinds"]] if rp.get("kinds") else []
    if rp.get("queries"):                      # the corpus travels in the recipe: the replay file stays usable after the run
        rp = dict(rp, corpus=os.path.join(td, "corpus.ndjson"))
        with open(rp["corpus"], "w") as f:
            for q in rp["queries"]:
                f.write(json.dumps(q) + "\n")
    subprocess.run([racebin, "conc", "-phase", "seq", "-corpus", rp["corpus"], "-out", seqf] + kargs, env=e2, stdout=subprocess.PIPE, stderr=subprocess.PIPE, text=True, timeout=1800)
    p = subprocess.run([racebin, "conc", "-phase", "conc", "-corpus", rp["corpus"], "-g", str(rp["g"]), "-per", str(rp["per"]), "-seed", str(rp["seed"]), "-out", concf] + kargs,
                       env=e2, stdout=subprocess.PIPE, stderr=subprocess.PIPE, text=True, timeout=1800)
    cat_files([seqf, concf], trace)
    out, rc, secs = run.tlc(td, "TraceConc", TRACE_CFG, workers=1, timeout=1800)
    return "TRACE-ACCEPTED" not in out


REPLAYERS["conc"] = replay_conc
CHECKS = {"C14": check_C14}
