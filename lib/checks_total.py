"""C01: totality - parser level, byte level and adversarial families."""
from parserfam import *
from lexfam import *
import checks_parser


def stage_families(run, sizes, name="families"):
    res = os.path.join(run.work, name + ".ndjson")
    s = run_families(run, sizes, res)
    if s.get("hang"):
        run.stage(name, hang=True)
        # the record of the hanging call is the last line of the file; the judge reports it
    else:
        run.stage(name, sizes=sizes, **s)
    run.evaluations += s.get("calls", 0)
    return res


def check_C01(run):
    checks_parser.common_assumptions(run)
    run.assumptions += [
        "'time polynomial in the input length' is decided on counted work, not wall clock: parser loop iterations <= 3n+3 and reduce attempts "
        "<= 16(n+1) for n tokens (each attempt costs O(stack depth) for the slice copy), the model-level variant function (Parser!Progress) "
        "and a 20 s watchdog per call; json.Marshal is quadratic in the nesting depth and is observed up to depth 4000 in the families",
        "byte-level inputs are sequences over the 50-symbol alphabet of spec/Lexer.tla (invalid byte 0xFF, NUL, unbalanced delimiters included)",
    ]
    # parser level: model checking (CountInv = no slice underflow, Progress = variant function, Terminates), replay, trace validation, judge
    checks_parser.enum_pipeline(run, "C01", observe=True)
    # byte level
    if run.tier == "quick":
        stage_mc_lexer(run, 3, SUB_SYMS, 4)
        res, tot, hang = stage_lex_enum(run, 2, FULL_SYMS, observe=True)
        stage_judge_lexer(run, res, "C01")
        res, tot, hang = stage_lex_enum(run, 4, SUB_SYMS_SMALL, name="lex_enum_sub", observe=True)
        stage_judge_lexer(run, res, "C01", name="judge_lexer_sub")
        res, tot, hang = stage_lex_enum(run, 0, FULL_SYMS, random=10000, rlen=40, name="lex_random", observe=True)
        stage_judge_lexer(run, res, "C01", name="judge_lexer_random")
        sizes = [100, 1000]
    else:
        stage_mc_lexer(run, 4, SUB_SYMS, 5)
        res, tot, hang = stage_lex_enum(run, 3, FULL_SYMS, observe=True)
        stage_judge_lexer(run, res, "C01")
        res, tot, hang = stage_lex_enum(run, 5, SUB_SYMS_SMALL, name="lex_enum_sub", observe=True)
        stage_judge_lexer(run, res, "C01", name="judge_lexer_sub")
        res, tot, hang = stage_lex_enum(run, 0, FULL_SYMS, random=300000, rlen=80, name="lex_random", observe=True)
        stage_judge_lexer(run, res, "C01", name="judge_lexer_random")
        sizes = [100, 1000, 3000, 10000, 20000]
    # adversarial families
    res = stage_families(run, sizes)
    stage_judge_enum(run, res, "C01", name="judge_families", replay=family_replay("C01"))
    # generated long queries and their near misses
    cases, g = stage_gen_trees(run, checks_parser.QUICK_KINDS if run.tier == "quick" else checks_parser.THOROUGH_KINDS, 2, ws=0, muts=2)
    res, _, _ = stage_groups(run, cases, observe=True, prints=True)
    stage_judge_trees(run, res, "C01", cases)
    # every leaf form (empty strings, repeated values, every number spelling ...) under every operator, with all observables
    casesz, gz = stage_gen_trees(run, checks_parser.ALL_KINDS, 1, ws=0, muts=1, name="gen_zoo")
    resz, _, _ = stage_groups(run, casesz, observe=True, prints=True, name="parse_zoo")
    stage_judge_trees(run, resz, "C01", casesz, name="judge_zoo")
    run.notes.append("adversarial families (%d shapes) at sizes %s" % (37, sizes))


CHECKS = {"C01": check_C01}
