"""Parser family: stages shared by C01 (parser part), C05, C06, C07, C09, C10, C11."""
import json, os, re
from vlib import *

# ------------------------------------------------------------------------------------------------
# stage: exhaustive model checking of the parser MECH with the REF invariants
# ------------------------------------------------------------------------------------------------
MC_CFG = """SPECIFICATION Spec
CONSTANTS
  Alphabet = %(alphabet)s
  MaxTok = %(n)d
  DFs = {"", "df"}
INVARIANTS %(invs)s
%(props)s
"""


def stage_mc_parser(run, n, alphabet, emit=True, liveness=False, name="mc_parser", timeout=3000):
    d = run.sub(name)
    invs = ["CountInv", "NtsMirror", "StepBound", "PopBound", "DerivesInv", "WellFormedInv", "NoBareInv"]
    if emit:
        invs.append("Emit")
    props = "PROPERTIES Progress" + (" Terminates" if liveness else "")
    cfg = MC_CFG % dict(alphabet=tla_set(alphabet), n=n, invs=" ".join(invs), props=props)
    out, rc, secs = run.tlc(d, "MC_Parser", cfg, workers=NPROC, timeout=timeout)
    gen, dist = run.tlc_stats(out)
    err = run.tlc_error(out)
    behaviours = {}
    if emit:
        for m in re.finditer(r'^"BEHAVIOUR (.*)"$', out, re.M):
            b = json.loads(json.loads('"' + m.group(1) + '"'))
            key = (tuple((t["t"], t["v"]) for t in b["toks"]), b["df"])
            behaviours[key] = b
    run.states += dist
    run.transitions += gen
    run.stage(name, tokens=n, alphabet=len(alphabet), states=dist, transitions=gen, accepted_behaviours=len(behaviours),
              invariants=invs[:7], temporal=props, secs=round(secs, 1), error=err)
    if err:
        # a model-level counterexample is only a lead: the verdict comes from the real code (judges below)
        run.notes.append("MODEL: TLC reported '%s' on the parser model (see %s/MC_Parser.out); verdicts still come from the real code" % (err, d))
        run.model_error = err
    if gen == 0:
        raise Broken("TLC produced no states for MC_Parser: " + out[-800:])
    return behaviours


# ------------------------------------------------------------------------------------------------
# stage: enumerate the same token space through the real parser
# ------------------------------------------------------------------------------------------------
def stage_enum(run, n, alphabet, observe=False, trace=False, accepted_only=True, name="enum", random=0, rlen=8, json=False, df=None):
    outs, traces, argsets = [], [], []
    k = NPROC if not random else 1
    for i in range(k):
        o = os.path.join(run.work, "%s_%d.ndjson" % (name, i))
        a = ["parse-enum", "-n", str(n), "-alphabet", ",".join(alphabet), "-out", o, "-shard", "%d/%d" % (i, k)]
        if accepted_only:
            a.append("-accepted-only")
        if observe:
            a.append("-observe")
        if json:
            a.append("-json")
        if df is not None:
            a += ["-df", df]
        if trace:
            t = os.path.join(run.work, "%s_trace_%d.ndjson" % (name, i))
            a += ["-trace", t]
            traces.append(t)
        if random:
            a += ["-random", str(random), "-len", str(rlen), "-seed", str(run.seed + 1)]
        outs.append(o)
        argsets.append(a)
    sums = run.harness_parallel(argsets)
    res = os.path.join(run.work, name + ".ndjson")
    cat_files(outs, res)
    for o in outs:
        os.remove(o)
    tr = None
    if trace:
        tr = os.path.join(run.work, name + "_trace.ndjson")
        cat_files(traces, tr)
        for t in traces:
            os.remove(t)
    tot = {}
    for s in sums:
        for kk, v in s.items():
            if isinstance(v, (int, float)):
                tot[kk] = tot.get(kk, 0) + v
    hang = any(s.get("hang") for s in sums)
    run.stage(name, tokens=n, random=random, hang=hang, **tot)
    run.evaluations += tot.get("calls", 0)
    return res, tr, tot, hang


def stage_conform_outcome(run, behaviours, resfile):
    """Spec -> code: every behaviour the model accepts must be accepted by the code with the same tree, and
    the code must accept nothing else in the enumerated space."""
    real = {}
    for line in open(resfile):
        c = json.loads(line)
        toks = tuple((t["t"], t["v"]) for t in c["toks"])
        if c["res"]["outcome"] == "ok":
            real[(toks, "")] = c["res"]["tree"]
        if c["resdf"]["outcome"] == "ok":
            real[(toks, "df")] = c["resdf"]["tree"]
    same = 0
    for key, b in behaviours.items():
        if key in real and real[key] == b["tree"]:
            same += 1
        elif len(run.drift) < 10:
            run.drift.append({"tokens": [t[1] for t in key[0]], "df": key[1], "model": "accept",
                              "code": "accept, other tree" if key in real else "reject"})
    extra = [k for k in real if k not in behaviours]
    for key in extra[:10 - min(10, len(run.drift))]:
        run.drift.append({"tokens": [t[1] for t in key[0]], "df": key[1], "model": "reject", "code": "accept"})
    run.traces += same
    run.stage("conform_outcome", model_accepts=len(behaviours), code_accepts=len(real), identical=same, code_only=len(extra))
    for key in list(behaviours)[:2]:
        run.add_sample({"kind": "behaviour replayed into Parse", "tokens": [t[1] for t in key[0]], "df": key[1], "tree": behaviours[key]["tree"]})


# ------------------------------------------------------------------------------------------------
# stage: step-level trace validation of recorded runs against the parser MECH
# ------------------------------------------------------------------------------------------------
TRACE_CFG = """SPECIFICATION TraceSpec
CONSTANTS
  Alphabet = {}
  MaxTok = 0
  DFs = {""}
  TraceFile = "trace.ndjson"
  DriftFile = "drift.ndjson"
INVARIANTS TraceInv Report
CHECK_DEADLOCK FALSE
"""


def stage_trace(run, tracefile, name="trace_validation", shards=1):
    if count_lines(tracefile) == 0:
        run.stage(name, cases=0)
        return
    d = run.sub(name)
    os.replace(tracefile, os.path.join(d, "trace.ndjson"))
    out, rc, secs = run.tlc(d, "TraceParser", TRACE_CFG, workers=1, timeout=3000)
    gen, dist = run.tlc_stats(out)
    m = re.search(r'"CONFORMANCE (.*)"', out)
    if not m:
        raise Broken("trace validation did not finish: " + (run.tlc_error(out) or out[-600:]))
    c = json.loads(json.loads('"' + m.group(1) + '"'))
    if "is violated" in out and "TraceInv" in out:
        run.notes.append("MODEL: a stack invariant (CountInv/NtsMirror) failed on a real run")
    dp = os.path.join(d, "drift.ndjson")
    if os.path.exists(dp):
        for line in open(dp):
            if line.strip() and len(run.drift) < 10:
                run.drift.append(json.loads(line))
    run.states += dist
    run.transitions += gen
    run.traces += c["conformant"]
    run.stage(name, runs=c["cases"], conformant=c["conformant"], drift=c["drift"], tlc_states=dist, secs=round(secs, 1))
    for line in first_lines(os.path.join(d, "trace.ndjson"), 400)[-1:]:
        r = json.loads(line)
        run.add_sample({"kind": "real run validated step by step", "q": r["q"], "df": r["df"], "steps": r["steps"][:12], "outcome": r["outcome"]})


# ------------------------------------------------------------------------------------------------
# stage: judge enumerated results
# ------------------------------------------------------------------------------------------------
JUDGE_CFG = """SPECIFICATION Spec
CONSTANTS
  ResFile = "res.ndjson"
  VerdictFile = "verdicts.ndjson"
  Prop = "%s"
INVARIANT Report
CHECK_DEADLOCK FALSE
"""


def text_replay(prop):
    return lambda v: {"pipeline": "text", "q": v.get("q"), "judge": "JudgeEnum", "prop": prop}


FAMILY_MEM = 8 << 30     # address-space limit of one recorder process of the adversarial families


def _limit_mem():
    import resource
    resource.setrlimit(resource.RLIMIT_AS, (FAMILY_MEM, FAMILY_MEM))


def run_families(run, sizes, res, only=None, timeout=7200):
    """parse-families under an address-space limit.  A recorder process that dies (memory exhausted by an output that grows
    exponentially, or killed) is not a broken machine but an observation: the sizes are then run one family at a time and the
    family that kills its process gets a record with outcome "killed", which the C01 judge reports."""
    def call(args, to):
        try:
            p = subprocess.run([HARNESS_BIN] + args, stdout=subprocess.PIPE, stderr=subprocess.PIPE, timeout=to, text=True, cwd=run.work, preexec_fn=_limit_mem)
            return p.returncode, p.stdout, p.stderr
        except subprocess.TimeoutExpired:
            return -1, "", "timeout"
    base = ["parse-families", "-sizes", ",".join(str(x) for x in sizes), "-out", res] + (["-only", only] if only else [])
    rc, out, err = call(base, timeout)
    if rc in (0, 3):
        m = re.search(r"SUMMARY (.*)", out)
        s = json.loads(m.group(1)) if m else {}
        if rc == 3:
            s["hang"] = True
        return s
    # some family kills the process: find out which
    rc0, out0, _ = call(["parse-families", "-list"], 60)
    names = json.loads(re.search(r"SUMMARY (.*)", out0).group(1))["families"] if rc0 == 0 else []
    if only:
        names = [only]
    if not names:
        raise Broken("harness parse-families failed (%d): %s" % (rc, err[-500:]))
    lines, calls, killed = [], 0, []
    for sz in sizes:
        for fam in names:
            part = res + ".part"
            rc, out, err = call(["parse-families", "-sizes", str(sz), "-only", fam, "-out", part], 900)
            if rc in (0, 3) and os.path.exists(part):
                lines += open(part).read().splitlines()
                calls += 2
            else:
                dead = {"q": "", "outcome": "killed", "e_nil": True, "err_nil": True, "validate_ok": False, "tree": {"op": "NIL"}, "nsteps": 0,
                        "attempts": 0, "popped": 0, "ntoks": 0, "lex_err": False}
                lines.append(json.dumps({"id": len(lines) + 1, "q": "%s n=%d: (the recorder process died: %s)" % (fam, sz, "timeout" if rc == -1 else "exit %d, memory limit %d GB" % (rc, FAMILY_MEM >> 30)),
                                         "family": fam, "n": sz, "toks": [], "df": "df", "res": dead, "resdf": dead, "ms": 0, "parse_ms": 0}))
                killed.append("%s n=%d" % (fam, sz))
            if os.path.exists(part):
                os.remove(part)
    with open(res, "w") as f:
        f.write("\n".join(lines) + "\n")
    return {"texts": len(lines), "calls": calls, "killed": killed}


def family_replay(prop):
    def mk(v):
        m = re.match(r"(\w+) n=(\d+):", v.get("q") or "")
        return {"pipeline": "family", "family": m.group(1), "n": int(m.group(2)), "prop": prop, "q": v.get("q")} if m else None
    return mk


def stage_judge_enum(run, resfile, prop, name="judge_enum", keep=False, replay=None):
    if count_lines(resfile) == 0:
        run.stage(name, lines=0)
        return
    for line in first_lines(resfile, 60)[-2:]:
        c = json.loads(line)
        run.add_sample({"kind": "real Parse result judged by " + prop, "q": c["q"], "tokens": [t["t"] for t in c.get("toks", [])],
                        "tree": c["res"]["tree"], "outcome": c["res"]["outcome"]})
    j, vfiles, d = run.judge(name, "JudgeEnum", prop, resfile, unit=6000, keep=keep)
    run.traces += j["accepted"]
    run.distinct += j["accepted"]
    run.stage(name, prop=prop, accepted_trees_judged=j["accepted"], failures=j["failures"], known=j["known"], secs=j["secs"], jvms=j["jvms"],
              codec_model_drift=j.get("drift", 0))
    if j.get("drift", 0):
        run.drift.append({"stage": name, "what": "decoded tree differs from ExprJson!RoundTripped for %d inputs" % j["drift"]})
    for vf in vfiles:
        run.add_verdicts(vf, replay or text_replay(prop))


# ------------------------------------------------------------------------------------------------
# stages: tree-driven generation, replay, judging
# ------------------------------------------------------------------------------------------------
GEN_CFG = """SPECIFICATION Spec
CONSTANTS
  LeafKinds = %(kinds)s
  Depth = %(depth)d
  OutFile = "cases.ndjson"
  Seed = %(seed)d
  WsPerTree = %(ws)d
  Sample = %(sample)d
  Muts = %(muts)d
  Suffix = %(suffix)s
POSTCONDITION Post
CHECK_DEADLOCK FALSE
"""


def stage_gen_trees(run, kinds, depth, ws=1, sample=0, muts=0, name="gen_trees", suffix=True):
    d = run.sub(name)
    out, rc, secs = run.tlc(d, "GenTrees", GEN_CFG % dict(kinds=tla_set(kinds), depth=depth, seed=run.seed, ws=ws, sample=sample, muts=muts,
                                                         suffix="TRUE" if suffix else "FALSE"),
                            workers=1, timeout=3000, seed=run.seed, xss=True)
    m = re.search(r'"GENERATED (.*)"', out)
    if not m:
        raise Broken("tree generator failed: " + (run.tlc_error(out) or out[-600:]))
    g = json.loads(json.loads('"' + m.group(1) + '"'))
    run.stage(name, leaf_kinds=kinds, depth=depth, trees=g["trees"], space=g["space"], secs=round(secs, 1))
    run.exhaustive = run.exhaustive or sample == 0
    return os.path.join(d, "cases.ndjson"), g


def stage_groups(run, casefile, trace_every=0, name="parse_groups", observe=False, sql=False, json=False, prints=False):
    res = os.path.join(run.work, name + ".ndjson")
    n = count_lines(casefile)
    k = NPROC if n >= 4000 else 1
    outs, traces, argsets = [], [], []
    for i in range(k):
        o = os.path.join(run.work, "%s_%d.ndjson" % (name, i))
        a = ["parse-groups", "-in", casefile, "-out", o, "-shard", "%d/%d" % (i, k)]
        if observe:
            a.append("-observe")
        if sql:
            a.append("-sql")
        if json:
            a.append("-json")
        if prints:
            a.append("-print")
        if trace_every:
            t = os.path.join(run.work, "%s_trace_%d.ndjson" % (name, i))
            a += ["-trace", t, "-trace-every", str(trace_every)]
            traces.append(t)
        outs.append(o)
        argsets.append(a)
    sums = run.harness_parallel(argsets)
    cat_files(outs, res)
    for o in outs:
        os.remove(o)
    tr = None
    if trace_every:
        tr = os.path.join(run.work, name + "_trace.ndjson")
        cat_files(traces, tr)
        for t in traces:
            os.remove(t)
    s = {}
    for x in sums:
        for kk, v in x.items():
            if isinstance(v, (int, float)):
                s[kk] = s.get(kk, 0) + v
    run.stage(name, **s)
    run.evaluations += s.get("calls", 0)
    return res, tr, s


JUDGE_TREES_CFG = JUDGE_CFG


def group_replay(prop, casefile):
    def mk(v):
        n = v["id"] // 100
        line = None                      # the generated group itself travels in the recipe: the replay file stays usable after the run
        try:
            for l in open(casefile):
                if l.startswith('{"n":%d,' % n) or json.loads(l)["n"] == n:
                    line = json.loads(l)
                    break
        except OSError:
            pass
        return {"pipeline": "group", "n": n, "casefile": casefile, "group": line, "prop": prop, "q": v.get("q")}
    return mk


def stage_judge_trees(run, resfile, prop, casefile, name="judge_trees", keep=False):
    for line in first_lines(resfile, 700)[-1:]:
        g = json.loads(line)
        for c in g["cases"][:4]:
            run.add_sample({"kind": "generated tree, variant " + c["kind"], "text": c["res"]["q"], "expected_tree": c["expect"],
                            "parsed_identically": c["res"]["tree"] == c["expect"]})
    j, vfiles, d = run.judge(name, "JudgeTrees", prop, resfile, unit=(700 if prop == "C06" else 2500), keep=keep)
    run.traces += j["judged"]
    run.distinct += j["judged"]
    run.stage(name, prop=prop, cases_judged=j["judged"], failures=j["failures"], known=j.get("known", 0), secs=j["secs"], jvms=j["jvms"],
              codec_model_drift=j.get("drift", 0), **({"render_model_predicted": j.get("render_predicted", 0),
                                                       "render_model_drift": j.get("render_drift", 0)} if prop in ("C03", "C04") else {}))
    if j.get("drift", 0):
        run.drift.append({"stage": name, "what": "decoded tree differs from ExprJson!RoundTripped for %d cases" % j["drift"]})
    if j.get("render_drift", 0):
        run.drift.append({"stage": name, "what": "SQL text or parameters differ from the driver model Render.tla for %d cases" % j["render_drift"],
                          "examples": j.get("drift_examples", [])[:3]})
    if j.get("print_predicted", 0) or j.get("print_drift", 0):
        run.stages[-1]["printer_model_predicted"] = j.get("print_predicted", 0)
        run.stages[-1]["printer_model_drift"] = j.get("print_drift", 0)
    if j.get("print_drift", 0):
        run.drift.append({"stage": name, "what": "String() / GoString() differ from the printer model Printers.tla for %d cases" % j["print_drift"],
                          "examples": j.get("drift_examples", [])[:3]})
    for vf in vfiles:
        run.add_verdicts(vf, group_replay(prop, casefile))


def repo_test_inputs():
    """Query strings used by the repository's own tests (input: "..." fields), as extra real inputs."""
    qs = []
    for f in ["parse_test.go", "postgresql_test.go", "pkg/driver/postgresql_test.go", "fuzz/fuzz_test.go"]:
        p = os.path.join(REPO, f)
        if not os.path.exists(p):
            continue
        src = open(p).read()
        for m in re.finditer(r'input:\s*("(?:[^"\\]|\\.)*"|`[^`]*`)', src):
            s = m.group(1)
            try:
                qs.append(s[1:-1] if s[0] == "`" else json.loads(s))
            except Exception:
                pass
    return sorted(set(qs))


def stage_texts(run, texts, observe=False, trace=False, name="texts", with_json=False, df=None):
    inp = os.path.join(run.work, name + "_in.ndjson")
    with open(inp, "w") as f:
        for q in texts:
            f.write(json.dumps(q) + "\n")
    res = os.path.join(run.work, name + ".ndjson")
    a = ["parse-texts", "-in", inp, "-out", res]
    if df is not None:
        a += ["-df", df]
    if observe:
        a.append("-observe")
    if with_json:
        a.append("-json")
    tr = None
    if trace:
        tr = os.path.join(run.work, name + "_trace.ndjson")
        a += ["-trace", tr]
    s = run.harness(a)
    run.stage(name, **s)
    run.evaluations += s.get("calls", 0)
    return res, tr, s


# ------------------------------------------------------------------------------------------------
# replay of a single case (confirmation of a failure, and `check <ID> --replay file`)
# ------------------------------------------------------------------------------------------------
def replay_case(run, rp):
    """Re-run the single case through the real code and the judge; True when the failure recurs."""
    sub = Run(run.prop, run.tier, run.seed, replay=True)
    sub.work = run.sub("replay_%d" % len(os.listdir(run.work)))
    if rp["pipeline"] == "text":
        res, _, _ = stage_texts(sub, [rp["q"]], observe=True, with_json=True)
        stage_judge_enum(sub, res, rp["prop"])
    elif rp["pipeline"] == "group":
        line = json.dumps(rp["group"]) + "\n" if rp.get("group") else None
        if line is None and os.path.exists(rp.get("casefile") or ""):
            for l in open(rp["casefile"]):
                if l.startswith('{"n":%d,' % rp["n"]) or json.loads(l)["n"] == rp["n"]:
                    line = l
                    break
        if line is None:
            raise Broken("replay: group %d not found (the generated case file is gone)" % rp["n"])
        cf = os.path.join(sub.work, "one.ndjson")
        open(cf, "w").write(line)
        res, _, _ = stage_groups(sub, cf, observe=True, sql=True, json=True)
        stage_judge_trees(sub, res, rp["prop"], cf)
    elif rp["pipeline"] == "family":
        res = os.path.join(sub.work, "fam.ndjson")
        run_families(sub, [rp["n"]], res, only=rp["family"], timeout=900)
        stage_judge_enum(sub, res, rp["prop"])
    else:
        raise Broken("unknown replay pipeline " + rp["pipeline"])
    return bool(sub.failures) or bool(sub.known)


REPLAYERS["text"] = replay_case
REPLAYERS["group"] = replay_case
REPLAYERS["family"] = replay_case
