"""Per-property pipelines of the render family."""
from renderfam import *
import checks_parser


def check_C15(run):
    run.assumptions += [
        "TLC 1.8.0 and the CommunityModules Json module evaluate the specification correctly",
        "render-function maps explored: every operator traced, each operator of the tree removed in turn, each overridden in turn "
        "(tracing functions return a unique text per call, so a swapped, skipped or repeated call is visible in the parents' arguments)",
        "leaf values come from pools without quote characters (quote doubling is C02/C08's subject)",
    ]
    kinds = checks_parser.DEEP_KINDS
    if run.tier == "quick":
        cases, g = stage_gen_trees(run, ["bare", "feq", "fwild", "fgt", "frange", "flist"], 2, ws=0, sample=0)
        res = stage_fold_groups(run, cases)
        stage_judge_fold(run, res)
        cases, g = stage_gen_trees(run, kinds, 3, ws=0, sample=2000, name="gen_deep")
        res = stage_fold_groups(run, cases, name="fold_deep")
        stage_judge_fold(run, res, name="judge_fold_deep")
    else:
        cases, g = stage_gen_trees(run, checks_parser.THOROUGH_KINDS, 2, ws=0, sample=0)
        res = stage_fold_groups(run, cases)
        stage_judge_fold(run, res)
        for depth, n in [(3, 30000), (5, 10000)]:
            cases, g = stage_gen_trees(run, kinds, depth, ws=0, sample=n, name="gen_deep%d" % depth)
            res = stage_fold_groups(run, cases, name="fold_deep%d" % depth)
            stage_judge_fold(run, res, name="judge_fold_deep%d" % depth)
    run.notes.append("every expression tree to depth 2 over the leaf alphabet (exhaustive) and sampled deeper trees (seed %d), each rendered "
                     "with 1 + 2*|operators of the tree| render-function maps" % run.seed)


CHECKS = {"C15": check_C15}
