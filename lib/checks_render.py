"""Per-property pipelines of the render family."""
from renderfam import *
import checks_parser


def check_C15(run):
    run.assumptions += [
        "TLC 1.8.0 and the CommunityModules Json module evaluate the specification correctly",
        "render-function maps explored: every operator traced, each operator of the tree removed in turn, each overridden in turn "
        "(tracing functions return a unique text per call, so a swapped, skipped or repeated call is visible in the parents' arguments)",
        "leaf values come from pools without quote characters (quote doubling is C02/C08's subject)",
    ]
    kinds = checks_parser.DEEP_KINDS
    if run.tier == "quick":
        cases, g = stage_gen_trees(run, ["bare", "feq", "fwild", "fgt", "frange", "flist"], 2, ws=0, sample=0)
        res = stage_fold_groups(run, cases)
        stage_judge_fold(run, res)
        cases, g = stage_gen_trees(run, kinds, 3, ws=0, sample=2000, name="gen_deep")
        res = stage_fold_groups(run, cases, name="fold_deep")
        stage_judge_fold(run, res, name="judge_fold_deep")
    else:
        cases, g = stage_gen_trees(run, checks_parser.THOROUGH_KINDS, 2, ws=0, sample=0)
        res = stage_fold_groups(run, cases)
        stage_judge_fold(run, res)
        for depth, n in [(3, 30000), (5, 10000)]:
            cases, g = stage_gen_trees(run, kinds, depth, ws=0, sample=n, name="gen_deep%d" % depth)
            res = stage_fold_groups(run, cases, name="fold_deep%d" % depth)
            stage_judge_fold(run, res, name="judge_fold_deep%d" % depth)
    # field groups (with ~ / ^ inside them) and the value zoo (NUL, %, non-ASCII, numbers in every spelling ...) as fold inputs
    cases, g = stage_gen_trees(run, ["bare", "feq", "FGROUP"], 2, ws=0, name="gen_fgroup")
    res = stage_fold_groups(run, cases, name="fold_fgroup")
    stage_judge_fold(run, res, name="judge_fold_fgroup")
    cases, g = stage_gen_trees(run, ["bare", "feq", "flist", "FGROUP"], 3, ws=0, sample=1500 if run.tier == "quick" else 15000, name="gen_fgroup3")
    res = stage_fold_groups(run, cases, name="fold_fgroup3")
    stage_judge_fold(run, res, name="judge_fold_fgroup3")
    zin = os.path.join(run.work, "zoo_in.ndjson")
    with open(zin, "w") as f:
        for q in checks_parser.zoo_texts() + checks_parser.fragment_texts() + checks_parser.depth_sweep_texts():
            f.write(json.dumps(q) + "\n")
    res = os.path.join(run.work, "fold_zoo.ndjson")
    sz = run.harness(["fold-text", "-in", zin, "-out", res])
    run.stage("fold_zoo", **sz)
    run.evaluations += sz.get("renders", 0)
    stage_judge_fold(run, res, name="judge_fold_zoo")
    # trees Parse cannot build: every schema document of GenJson that decodes and validates (lists of patterns, literals in odd places ...)
    import checks_json
    d = run.sub("gen_json")
    out, rc, secs = run.tlc(d, "GenJson", checks_json.GENJSON_CFG % run.tier, workers=1, timeout=3600, seed=run.seed, xss=True)
    if '"GENERATED' not in out:
        raise Broken("GenJson failed: " + (run.tlc_error(out) or out[-400:]))
    res = os.path.join(run.work, "fold_docs.ndjson")
    s = run.harness(["fold-docs", "-in", os.path.join(d, "docs.ndjson"), "-out", res])
    run.stage("fold_docs", **s)
    run.evaluations += s.get("renders", 0)
    stage_judge_fold(run, res, name="judge_fold_docs")
    run.notes.append("every expression tree to depth 2 over the leaf alphabet (exhaustive) and sampled deeper trees (seed %d), each rendered "
                     "with 1 + 2*|operators of the tree| render-function maps" % run.seed)


CHECKS = {"C15": check_C15}


SQL_ASSUME = [
    "TLC 1.8.0 and the CommunityModules Json module evaluate the specification correctly",
    "PostgreSQL's reading of the text is pg_query_go v4.2.3 (PostgreSQL 15 grammar); its AST is projected structurally (harness/pgsensor.go), "
    "anything outside the listed node kinds becomes 'other' and is rejected by Sql!InFragment",
    "SQL semantics (spec/Sql.tla): comparison, inclusive BETWEEN, IN, SIMILAR TO with % _ and backslash escape, AND/OR/NOT on non-NULL values, "
    "numbers compared numerically (scaled by 10^6), strings bytewise (C collation) - our reading of the PostgreSQL manual; no server in the sandbox",
]

ATOM_KINDS = ["feq", "feqint", "fgt", "fle", "frange", "fxirange", "flist"]


def sql_structure(run, prop):
    """Structure level: generated Boolean trees over known-good leaves, both renderings read by PostgreSQL's parser."""
    if run.tier == "quick":
        cases, g = stage_gen_trees(run, ["feq", "frange", "fxirange"], 2, ws=0, suffix=False)
        res, _, _ = stage_groups(run, cases, sql=True)
        stage_judge_trees(run, res, prop, cases)
        cases, g = stage_gen_trees(run, ATOM_KINDS, 3, ws=0, sample=1500, suffix=False, name="gen_deep")
        res, _, _ = stage_groups(run, cases, sql=True, name="parse_deep")
        stage_judge_trees(run, res, prop, cases, name="judge_deep")
    else:
        cases, g = stage_gen_trees(run, ["feq", "feqint", "frange", "fxirange"], 2, ws=0, suffix=False)
        res, _, _ = stage_groups(run, cases, sql=True)
        stage_judge_trees(run, res, prop, cases)
        for depth, n in [(3, 6000), (5, 2000)]:
            cases, g = stage_gen_trees(run, ATOM_KINDS, depth, ws=0, sample=n, suffix=False, name="gen_deep%d" % depth)
            res, _, _ = stage_groups(run, cases, sql=True, name="parse_deep%d" % depth)
            stage_judge_trees(run, res, prop, cases, name="judge_deep%d" % depth)


def check_C03(run):
    run.assumptions += SQL_ASSUME
    run.assumptions.append("leaf level: every leaf form over typed value pools (ints, decimals incl. >2 decimals, strings incl. quotes/commas/spaces, "
                           "wildcard patterns; every bracket combination and open end), probe rows hit every region cut out by the pool constants; "
                           "structure level: Boolean trees over known-good leaves, one probe value per region of each leaf's column; regexps excluded")
    cases, g = stage_gen_sql(run)
    res = stage_sql_cases(run, cases)
    stage_judge_sql(run, res, "C03")
    sql_structure(run, "C03")
    run.exhaustive = True
    run.notes.append("leaf cases enumerated exhaustively over the pools; trees exhaustive to depth 2, sampled deeper (seed %d)" % run.seed)


def check_C04(run):
    run.assumptions += SQL_ASSUME
    cases, g = stage_gen_sql(run)
    res = stage_sql_cases(run, cases)
    stage_judge_sql(run, res, "C04")
    cases, g = stage_gen_sql(run, module="GenAdv", name="gen_adv")
    res = stage_sql_cases(run, cases, name="sql_adv")
    stage_judge_sql(run, res, "C04", name="judge_sql_adv")
    sql_structure(run, "C04")
    # the driver model itself, model checked: the model-level C04 over every tree of depth <= 2
    stage_mc_render(run, ["feq", "feqfloat", "feqq", "fwild", "fmrange"] if run.tier == "quick"
                    else ["feq", "feqfloat", "feqq", "fwild", "fre", "fmrange", "flist"])
    run.exhaustive = True
    run.notes.append("leaf cases (with a same-kind value substitution each), adversarial values, and generated trees (seed %d)" % run.seed)


def check_C02(run):
    run.assumptions += SQL_ASSUME
    run.assumptions.append("adversarial pool: quotes, backslashes, statement separators, comment openers, NUL, invalid UTF-8, newline, $1, ?, "
                           "E'..' and U&'..' prefixes, NaN/Inf/hex/out-of-range number spellings, a 65-byte field name; each as value (escaped and "
                           "quoted) in every leaf form, as field name, and as default-field term")
    cases, g = stage_gen_sql(run, module="GenAdv", name="gen_adv")
    res = stage_sql_cases(run, cases, name="sql_adv")
    stage_judge_sql(run, res, "C02", name="judge_sql_adv")
    cases, g = stage_gen_sql(run)
    res = stage_sql_cases(run, cases)
    stage_judge_sql(run, res, "C02")
    run.exhaustive = True
    run.notes.append("every adversarial string x every leaf form / position, both renderers")


CHECKS.update({"C02": check_C02, "C03": check_C03, "C04": check_C04})
