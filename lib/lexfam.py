"""Lexer family: stages for C16 and the lexical halves of C09 / C08 / C01."""
import json, os, re
from vlib import *

FULL_SYMS = ["A", "N", "D", "O", "R", "T", "o", "r", "x", "EACUTE", "CJK", "d1", "UDIGIT", "UND", "STAR", "QM", "SP", "TAB", "CR", "NL",
             "LP", "RP", "LS", "RS", "LC", "RC", "COLON", "PLUS", "EQ", "GT", "TILDE", "CARET", "LT", "HASH", "SEMI", "PCT", "COMMA",
             "NUL", "BAD", "NBSP", "BANG", "AMP", "PIPE", "AT", "USYM", "LSEP", "DEL", "CTRL", "UREPL", "LDQ", "RDQ", "USUP", "UFRAC", "BS", "MINUS", "DOT", "DQ", "SQ", "SL"]
# the alphabet without near-duplicates (one of each bracket pair, of the keyword letters, of the ASCII junk characters ...): length 4
MID_SYMS = ["A", "N", "D", "O", "R", "T", "o", "x", "EACUTE", "CJK", "d1", "UDIGIT", "UND", "STAR", "QM", "SP", "TAB", "NL", "LP", "RP", "LS", "RC",
            "COLON", "PLUS", "EQ", "GT", "TILDE", "CARET", "HASH", "NUL", "BAD", "NBSP", "USYM", "UREPL", "LDQ", "USUP", "BS", "MINUS", "DOT", "DQ", "SQ", "SL"]
# one representative per `case` of lex.go
SUB_SYMS = ["O", "R", "x", "d1", "STAR", "SP", "NL", "LP", "COLON", "HASH", "BS", "MINUS", "DOT", "DQ", "SL", "EACUTE"]
SUB_SYMS_SMALL = ["O", "R", "x", "d1", "STAR", "SP", "LP", "COLON", "HASH", "BS", "MINUS", "DQ", "SL", "CJK"]

MC_LEXER_CFG = """SPECIFICATION Spec
CONSTANTS
  Alphabet = %(alphabet)s
  MaxLen = %(n)d
  MaxCalls = %(calls)d
INVARIANTS TypeOK LosslessInv EofForeverInv PeekIsNextInv PeekPureInv ScheduleFree
CHECK_DEADLOCK FALSE
"""


def stage_mc_lexer(run, n, alphabet, calls, name="mc_lexer"):
    d = run.sub(name)
    out, rc, secs = run.tlc(d, "MC_Lexer", MC_LEXER_CFG % dict(alphabet=tla_set(alphabet), n=n, calls=calls), workers=NPROC, timeout=3000)
    gen, dist = run.tlc_stats(out)
    err = run.tlc_error(out)
    run.states += dist
    run.transitions += gen
    run.stage(name, symbols=len(alphabet), max_len=n, max_calls=calls, states=dist, transitions=gen, secs=round(secs, 1), error=err,
              invariants=["TypeOK", "LosslessInv", "EofForeverInv", "PeekIsNextInv", "PeekPureInv", "ScheduleFree"])
    if gen == 0:
        raise Broken("TLC produced no states for MC_Lexer: " + out[-800:])
    if err:
        run.notes.append("MODEL: TLC reported '%s' on the lexer model; verdicts still come from the real code" % err)


def stage_lex_enum(run, n, alphabet, name="lex_enum", random=0, rlen=16, variants=False, observe=False):
    outs, argsets = [], []
    k = NPROC if not random else 1
    for i in range(k):
        o = os.path.join(run.work, "%s_%d.ndjson" % (name, i))
        a = ["lex-enum", "-n", str(n), "-alphabet", ",".join(alphabet), "-out", o, "-shard", "%d/%d" % (i, k)]
        if random:
            a += ["-random", str(random), "-len", str(rlen), "-seed", str(run.seed + 7)]
        if variants:
            a.append("-variants")
        if observe:
            a.append("-observe")
        outs.append(o)
        argsets.append(a)
    sums = run.harness_parallel(argsets)
    res = os.path.join(run.work, name + ".ndjson")
    cat_files(outs, res)
    for o in outs:
        os.remove(o)
    tot = sum(s.get("inputs", 0) for s in sums)
    hang = any(s.get("hang") for s in sums)
    run.stage(name, symbols=len(alphabet), max_len=n, random=random, inputs=tot, hang=hang)
    run.evaluations += tot
    return res, tot, hang


def sym_replay(prop):
    return lambda v: {"pipeline": "syms", "inp": v.get("q"), "prop": prop}


def stage_judge_lexer(run, resfile, prop, name="judge_lexer", keep=False):
    if count_lines(resfile) == 0:
        run.stage(name, lines=0)
        return
    for line in first_lines(resfile, 3000)[-2:]:
        c = json.loads(line)
        run.add_sample({"kind": "real lexer calls judged by " + prop, "input_symbols": c["inp"], "text": c["q"],
                        "next_only_tokens": [[k[1], k[2], k[3]] for k in c["a"]][:8], "parse": c["parse"]})
    j, vfiles, d = run.judge(name, "JudgeLexer", prop, resfile, unit=6000, keep=keep)
    run.traces += j.get("conformant", 0)
    run.distinct += j["judged"]
    run.stage(name, prop=prop, inputs_judged=j["judged"], failures=j["failures"], known=j["known"],
              conformant=j.get("conformant"), drift=j.get("drift"), secs=j["secs"], jvms=j["jvms"])
    for vf in vfiles:
        run.add_verdicts(vf, sym_replay(prop))
        dp = os.path.join(os.path.dirname(vf), "drift.ndjson")
        if os.path.exists(dp):
            for line in open(dp):
                if line.strip() and len(run.drift) < 10:
                    run.drift.append(json.loads(line))


def replay_syms(run, rp):
    sub = Run(run.prop, run.tier, run.seed, replay=True)
    sub.work = run.sub("replay_%d" % len(os.listdir(run.work)))
    inp = os.path.join(sub.work, "one.ndjson")
    # a single input is replayed by enumerating "sequences" over a one-input pool: use random mode with the exact symbols
    res = os.path.join(sub.work, "res.ndjson")
    s = sub.harness(["lex-one", "-syms", ",".join(rp["inp"]), "-out", res, "-variants", "-observe"])
    stage_judge_lexer(sub, res, rp["prop"])
    return bool(sub.failures) or bool(sub.known)


REPLAYERS["syms"] = replay_syms


# ---- C08 ------------------------------------------------------------------------------------------
VALUE_SYMS = [s for s in FULL_SYMS if s not in ("DQ", "NUL", "BAD")]
VALUE_SUB = ["x", "O", "R", "d1", "STAR", "QM", "BS", "SQ", "SL", "SP", "MINUS", "DOT", "COLON", "LP", "SEMI", "PCT", "EACUTE"]


def stage_quote_enum(run, n, alphabet, name="quote_enum", random=0, rlen=40, words=False):
    outs, argsets = [], []
    k = NPROC if not (random or words) else 1
    for i in range(k):
        o = os.path.join(run.work, "%s_%d.ndjson" % (name, i))
        a = ["quote-enum", "-n", str(n), "-alphabet", ",".join(alphabet), "-out", o, "-shard", "%d/%d" % (i, k)]
        if random:
            a += ["-random", str(random), "-len", str(rlen), "-seed", str(run.seed + 11)]
        if words:
            a.append("-words")
        outs.append(o)
        argsets.append(a)
    sums = run.harness_parallel(argsets)
    res = os.path.join(run.work, name + ".ndjson")
    cat_files(outs, res)
    for o in outs:
        os.remove(o)
    tot = sum(s.get("inputs", 0) for s in sums)
    run.stage(name, symbols=len(alphabet), max_len=n, random=random, strings=tot)
    run.evaluations += tot
    return res, tot


def stage_judge_quote(run, resfile, name="judge_quote"):
    for line in first_lines(resfile, 500)[-2:]:
        c = json.loads(line)
        run.add_sample({"kind": "value string through quoting and escaping", "w_symbols": c["wsyms"], "quoted_query": c["quoted"]["q"],
                        "escaped_query": c["escaped"]["q"], "leaf": c["quoted"]["leaf"], "params": c["quoted"]["params"]})
    j, vfiles, d = run.judge(name, "JudgeQuote", "C08", resfile, unit=5000)
    run.traces += j["judged"]
    run.distinct += j["judged"]
    run.stage(name, queries_judged=j["judged"], failures=j["failures"], known=j["known"], secs=j["secs"], jvms=j["jvms"])
    for vf in vfiles:
        run.add_verdicts(vf, lambda v: {"pipeline": "quote", "wsyms": v.get("q")})


def replay_quote(run, rp):
    sub = Run(run.prop, run.tier, run.seed, replay=True)
    sub.work = run.sub("replay_%d" % len(os.listdir(run.work)))
    # a single string is replayed by a one-symbol-per-position "alphabet": enumerate exactly that sequence
    res = os.path.join(sub.work, "res.ndjson")
    sub.harness(["quote-one", "-syms", ",".join(rp["wsyms"]), "-out", res])
    stage_judge_quote(sub, res)
    return bool(sub.failures) or bool(sub.known)


REPLAYERS["quote"] = replay_quote
