"""Per-property pipelines of the parser family."""
from parserfam import *

QUICK_KINDS = ["bare", "feq", "frange", "flist"]
THOROUGH_KINDS = ["bare", "bareint", "feq", "feqq", "fwild", "fgt", "fle", "frange", "fxrange", "flist"]
DEEP_KINDS = ["bare", "bareint", "barequoted", "barewild", "feq", "feqint", "feqfloat", "feqq", "fwild", "fstar", "fre",
              "fgt", "fge", "flt", "fle", "frange", "fxrange", "fxirange", "fmrange", "flist", "flist3"]


ALL_KINDS = DEEP_KINDS + ["barenint", "barefloat", "barere", "feqifloat", "feqempty", "baresame", "feqsame", "fduplist", "fduplist3", "frangesame", "femptyfield", "femptylist", "fmixrange", "fmixrange2"]


def common_assumptions(run):
    run.assumptions += [
        "TLC 1.8.0 and the CommunityModules Json module evaluate the specification correctly",
        "the harness projections (tree dump, token classification) are faithful; they are cross-checked by replaying every model behaviour into the real parser",
        "token texts come from the pools in harness/parsefam.go (tokVal); arbitrary token texts are covered by the lexer-level checks (C08, C16)",
    ]


def trees_pipeline(run, prop, observe=False):
    """Tree-driven part shared by C05/C07/C09/C11 (+C06/C10/C01 on the generated texts)."""
    prints = prop in ("C01", "C12")     # the printer model (Printers.tla) is compared with String() / GoString() on these runs
    # the leaf zoo: every leaf form (incl. repeated values, equal bounds, empty strings) under every single operator
    casesz, gz = stage_gen_trees(run, ALL_KINDS, 1, ws=1, muts=1, name="gen_zoo")
    resz, _, _ = stage_groups(run, casesz, name="parse_zoo", prints=prints, observe=observe)
    stage_judge_trees(run, resz, prop, casesz, name="judge_zoo")
    # field groups  w:( E )  over every tree of depth <= 2 (the group is one more unary operator)
    casesg, gg = stage_gen_trees(run, ["bare", "feq", "FGROUP"], 2, ws=1, muts=1 if prop in ("C06", "C10", "C11", "C01") else 0, name="gen_fgroup")
    resg, _, _ = stage_groups(run, casesg, name="parse_fgroup", prints=prints, observe=observe)
    stage_judge_trees(run, resg, prop, casesg, name="judge_fgroup")
    casesg, gg = stage_gen_trees(run, ["bare", "feq", "FGROUP"], 3, ws=1, sample=1000 if run.tier == "quick" else 20000, name="gen_fgroup3")
    resg, _, _ = stage_groups(run, casesg, name="parse_fgroup3", prints=prints, observe=observe)
    stage_judge_trees(run, resg, prop, casesg, name="judge_fgroup3")
    if run.tier == "quick":
        cases, g = stage_gen_trees(run, QUICK_KINDS + (["bareint"] if prop == "C07" else []), 2, ws=1 if prop != "C07" else 0,
                                   muts=2 if prop in ("C06", "C10", "C11", "C01") else 0)
        res, tr, s = stage_groups(run, cases, trace_every=25, prints=prints, observe=observe)
        if tr:
            stage_trace(run, tr, name="trace_trees")
        stage_judge_trees(run, res, prop, cases)
        # deeper trees, sampled with the seeded generator
        cases2, g2 = stage_gen_trees(run, DEEP_KINDS + ["FGROUP"], 3, ws=1, sample=1500, muts=1, name="gen_deep")
        res2, _, _ = stage_groups(run, cases2, name="parse_deep", prints=prints, observe=observe)
        stage_judge_trees(run, res2, prop, cases2, name="judge_deep")
    else:
        cases, g = stage_gen_trees(run, THOROUGH_KINDS, 2, ws=2, muts=2)
        res, tr, s = stage_groups(run, cases, trace_every=20, prints=prints, observe=observe)
        if tr:
            stage_trace(run, tr, name="trace_trees")
        stage_judge_trees(run, res, prop, cases)
        for i, (depth, n) in enumerate([(3, 20000), (4, 10000)]):
            cases2, g2 = stage_gen_trees(run, DEEP_KINDS + ["FGROUP"], depth, ws=2, sample=n, muts=2, name="gen_deep%d" % depth)
            res2, tr2, _ = stage_groups(run, cases2, trace_every=40, name="parse_deep%d" % depth, prints=prints, observe=observe)
            if tr2:
                stage_trace(run, tr2, name="trace_deep%d" % depth)
            stage_judge_trees(run, res2, prop, cases2, name="judge_deep%d" % depth)
    run.notes.append("trees: every expression tree to depth 2 over the leaf alphabet (exhaustive), printed by the documented "
                     "precedence table with minimal / redundant parentheses, juxtaposition subsets, whitespace and keyword-case "
                     "vectors, one-token mutations; deeper trees sampled with seed %d; a case is non-trivial when the text has >= 2 tokens" % run.seed)


def enum_pipeline(run, prop, observe=False):
    """Token-exhaustive part shared by C01/C06/C10/C11: model checking, replay, trace validation, judging."""
    if run.tier == "quick":
        n_mc, n_trace = 4, 3
    else:
        n_mc, n_trace = 5, 4
    beh = stage_mc_parser(run, n_mc, FULL_ALPHABET, emit=True)
    res, _, tot, hang = stage_enum(run, n_mc, FULL_ALPHABET, observe=observe)
    stage_conform_outcome(run, beh, res)
    del beh
    _, tr, _, _ = stage_enum(run, n_trace, FULL_ALPHABET, trace=True, accepted_only=True, name="enum_steps")
    stage_trace(run, tr)
    stage_judge_enum(run, res, prop)
    if run.tier == "thorough":
        # one more token over the symmetry-reduced alphabet
        beh = stage_mc_parser(run, 6, REDUCED_ALPHABET, emit=True, name="mc_parser_reduced")
        res2, _, _, _ = stage_enum(run, 6, REDUCED_ALPHABET, observe=observe, name="enum_reduced")
        stage_conform_outcome(run, beh, res2)
        del beh
        stage_judge_enum(run, res2, prop, name="judge_enum_reduced")
    # liveness on the unconstrained spec (small bound: TLC's liveness checking is expensive)
    stage_mc_parser(run, 3, FULL_ALPHABET, emit=False, liveness=True, name="mc_parser_liveness")
    # inputs the model never produced: the repository's own test queries and random longer sequences
    texts = repo_test_inputs()
    res3, tr3, _ = stage_texts(run, texts, observe=observe, trace=True, name="repo_tests")
    stage_trace(run, tr3, name="trace_repo_tests")
    stage_judge_enum(run, res3, prop, name="judge_repo_tests")
    # the value zoo: numbers in every spelling, schema / SQL / Go words, fmt verbs, quotes of every kind, NUL, long and non-ASCII
    # values - in every position a value can stand in
    resz, _, _ = stage_texts(run, zoo_texts() + fragment_texts(), observe=observe, name="zoo_texts")
    stage_judge_enum(run, resz, prop, name="judge_zoo_texts")
    nrand = 20000 if run.tier == "quick" else 400000
    res4, _, _, _ = stage_enum(run, 0, FULL_ALPHABET, observe=observe, random=nrand, rlen=12, name="random_seqs")
    stage_judge_enum(run, res4, prop, name="judge_random")
    run.exhaustive = True
    run.notes.append("token sequences: every sequence of <= %d tokens over the %d-symbol alphabet (every token type; value pools per kind) x "
                     "{no default field, default field}, explored in the model by TLC and replayed into the real Parse; step-level trace "
                     "validation to %d tokens; plus the repository's test queries and %d random sequences of <= 12 tokens (seed %d); "
                     "distinct_nontrivial counts accepted trees judged" % (n_mc, len(FULL_ALPHABET), n_trace, nrand, run.seed))


def check_C05(run):
    common_assumptions(run)
    stage_mc_parser(run, 3, FULL_ALPHABET, emit=False)
    trees_pipeline(run, "C05")


def check_C07(run):
    common_assumptions(run)
    stage_mc_parser(run, 3, FULL_ALPHABET, emit=False)
    trees_pipeline(run, "C07")
    run.assumptions.append("'may be written with nothing but whitespace between them' is read as: the gap is between two term tokens "
                           "(left operand ends in a term, right operand begins with one); other juxtapositions are rejected by the parser "
                           "and are not counted as violations")


def check_C06(run):
    common_assumptions(run)
    enum_pipeline(run, "C06")
    trees_pipeline(run, "C06")


VALUE_ZOO = [
    # numbers in every spelling Go's or another language's number parser might take
    "007", "010", "0100", "-017", "0x1f", "0X1F", "0b11", "0o17", "1_000", "1e3", "1E3", "1e+3", "1e-3", "2.5e-3", ".5", "5.", "00", "-0", "0.0", "1.50",
    "9007199254740993", "9223372036854775807", "9223372036854775808", "99999999999999999999", "1e19", "1e400", "Infinity", "NaN", "nan", "inf", "0x1p-2",
    # words that mean something to the JSON schema, to SQL or to Go
    "left", "right", "operator", "min", "max", "inclusive", "distance", "power", "boundaries", "null", "NULL", "true", "false", "nil", "select", "LITERAL", "RANGE",
    # characters that mean something to fmt, SQL, JSON, the lexer
    "%", "100%", "a%c", "%d", "%s%s", "%!", "a\\", "\\", "a\\*", "a*", "a?b", "it's", "''", "\u201cx\u201d", "\u2019", "\u0000", "a\u0000b", "\u00e9t\u00e9", "\u65e5\u672c\u8a9e" * 7,
    "\u65e5\u672c\u8a9e" * 7 + "\u0000", "x" * 47, "x" * 48, "x" * 49, "\u00e9" * 30, "x" * 300, "(", ")", "a(b", "a)b", "[", "]", "{", "a:b", "a=b", " ", "a b", ",", "a,b", "1,2",
    "'", '"', 'a"b', '""', "a b*", "a b?c", "/a b/x", "a" * 62, "a" * 63, "a" * 64, "a" * 65, "*", "?", "/", "/r/", "/a b/", "-", "--", "-a", "+", "~", "^", "<", ">=", "$1", "?1", ";", "--x", "/*", "\t", "\n", "\u00a0", "\ufffd", "\u0663", "e", "E1",
]
VALUE_ZOO = [v.encode("ascii").decode("unicode_escape") if "\\u" in v or v in ("\\t", "\\n") else v.replace("\\\\", "\\") for v in VALUE_ZOO]
KEYWORDS = {"AND", "OR", "NOT", "TO"}


def _escape_bare(v):
    """Backslash before every character that is not a letter, digit or underscore (the escaping clause of C08)."""
    return "".join(c if (c == "_" or c.isalnum()) else "\\" + c for c in v)


def zoo_texts():
    """Every value of the zoo in every position a value can stand in (field value, field name, range bound, list item, bare term,
    comparison, under operators), written quoted, escaped and - where it is a number or a word - bare."""
    out = []
    for v in VALUE_ZOO:
        spellings = []
        if '"' not in v:
            spellings.append('"' + v + '"')
        if v and v.upper() not in KEYWORDS:
            spellings.append(_escape_bare(v))
        if v and all(c.isalnum() or c in "._+-" for c in v) and v.upper() not in KEYWORDS and not v.startswith(("-", "+")):
            spellings.append(v)                      # typed as it stands: numbers in odd spellings, schema words
        for s in dict.fromkeys(spellings):
            out += ["f:" + s, s + ":x", "f:[" + s + " TO z]", "f:[a TO " + s + "]", "f:{" + s + " TO *}", "f:(" + s + " OR x)", "f:(x OR " + s + " OR y)",
                    s, "NOT " + s, "f:" + s + " AND g:y", "g:y " + s, "f:>" + s, "f:<=" + s, s + "~", "f:" + s + "^2", s + ":[1 TO 2]", "-" + s + " +f:" + s,
                    s + ":(x OR y)", s + ":x*", s + ":/r/", s + ":>1", s + ":x AND " + s + ":y"]
    return list(dict.fromkeys(out))


FRAGMENTS = ["[1 TO 5]", "{1 TO *}", "[a TO b]", ":x", ":>5", "f:", "f:>", "f:>=", "f:[1 TO]", "f:[TO 5]", "f:[1 5]", "f:[1 TO 5", "f:1 TO 5]", "TO", "f:(", "()", "f:()", "~2", "^2", "~",
             "a~b", "a^b", "a~-1", "a^-1", "a~1.5", "a:b:c", "(a:b):c", "(a b):c", "a:[b:c TO 5]", "a:[(b c) TO d]", "a:[NOT b TO c]", "a:[1 TO (b OR c)]", "a:(b)~", "a:b~", "a:b:c~",
             "(a:b):>=5~3", "a AND", "AND a", "a OR OR b", "NOT", "+", "a +", "a -", "a:>=(b:c)", "a:<(b:[1 TO 2])", "a:(b:c:d)", "a:>(b c)", "a:(b OR c:d)", "a:(b^2 OR c)",
             "a:(b~ OR c)", "a:(b OR c)^2", "a:(NOT b OR c)", "a:(+b OR c)", "a:(b* OR c)", "a:(\"b*\" OR c)", "a:(/r/ OR c)", "a:(1 OR 1)", "a:((b OR c) OR d)", "a:(b OR (c OR d))",
             "a:(7 OR \"7\" OR \"x y\")", "a:(\"7\" OR 7 OR 7.0)", "a:(1.5 OR \"1.5\")", "a:(b OR \"b\")", "a:(b OR b OR \"b c\")", "a:(7 OR 07 OR 7.0)"]
CONTEXTS = ["%s", "x:y AND %s", "%s AND x:y", "NOT %s", "-%s", "+%s", "(%s)", "x:y OR %s", "(x:y OR %s)^2", "%s~", "%s^3", "g:(%s)", "x:y %s", "%s x:y", "x:y AND (z:w OR NOT %s)"]


def fragment_texts():
    """Constructs that are not queries (a range without a field, a colon without a value, an operator without an operand ...) and
    border-line ones, alone and under every operator: whatever the parser makes of them, it must make the same with and without a
    default field (C11), return well-formed trees only (C10) that derive from the text (C06), and never panic (C01)."""
    return list(dict.fromkeys(c % f for f in FRAGMENTS for c in CONTEXTS))


def paren_depth_groups(path):
    """Groups in the format of GenTrees (written here, not by TLC: they are one tree each with ever more redundant parentheses):
    k = 1..70 pairs around the whole query, around a field's value and around the operand of NOT and of OR."""
    def tok(t, v=None):
        return {"t": t, "v": v if v is not None else t, "pv": ""}
    W = lambda i: tok("word", "w%d" % i)                       # plain words (i % 4 = 0 in the pools' numbering)
    LP, RP, COLON = tok("LPAREN"), tok("RPAREN"), tok("COLON")
    col = lambda v: {"op": "LIT", "ty": "col", "v": v, "sg": "x"}
    lit = lambda v: {"op": "LIT", "ty": "str", "v": v, "sg": "x"}
    eq = {"op": "EQUALS", "l": col("w4"), "r": lit("w8")}
    shapes = [   # (tokens before, wrapped tokens, tokens after, expected tree)
        ([], [W(4), COLON, W(8)], [], eq),
        ([W(4), COLON], [W(8)], [], eq),
        ([tok("NOT")], [W(4), COLON, W(8)], [], {"op": "NOT", "l": eq}),
        ([W(12), tok("OR")], [W(4), COLON, W(8)], [], {"op": "OR", "l": lit("w12"), "r": eq}),
        ([], [W(4), COLON, W(8)], [tok("AND"), W(12)], {"op": "AND", "l": eq, "r": lit("w12")}),
    ]
    with open(path, "w") as f:
        for n, (pre, mid, post, tree) in enumerate(shapes, start=1):
            b = n * 100
            cases = [{"id": b, "base": b, "kind": "min", "toks": pre + mid + post, "expect": tree, "df": "", "ws": [], "kwcase": [], "note": ""}]
            for k in list(range(1, 71)):
                cases.append({"id": b + k, "base": b, "kind": "paren", "toks": pre + [LP] * k + mid + [RP] * k + post, "expect": tree, "df": "", "ws": [],
                              "kwcase": [], "note": "%d pairs" % k})
            f.write(json.dumps({"n": n, "cases": cases}) + "\n")
    return path


def deep_malformed_texts():
    """Constructs that only expr.Validate rejects (a conjunction in a field position or as a range bound, ...) below k operator
    levels: a guard that stops looking at some depth would let them through."""
    bad = ["(a b):c", "a:[(b c) TO d]", "(a OR b):>5", "(a b):[1 TO 2]", "a:[1 TO (b OR c)]", "(a b):(c OR d)", "(NOT a):b"]
    bad += [b + sfx for b in ("a:b:c", "(a:b):c", "(a:b):>=5", "(a:b):[1 TO 5]") for sfx in ("~", "~3", "^2", "")]
    out = []
    for k in (1, 3, 20, 63, 64, 65, 66, 100, 130, 200):   # TLC's JSON reader stops at 255 levels of nesting
        for b in bad:
            out += ["NOT " * k + b, "-" * 1 + "(" * k + b + ")" * k, "+(" * k + b + ")" * k, "(x:1 AND " * k + b + ")" * k,
                    "(" + b + " OR y:2" + ")" * 1 if k == 1 else "(y:2 OR " * k + b + ")" * k]
    return out


def depth_sweep_texts():
    """Valid queries of every nesting depth 1..70 (and a few deeper) in several shapes: a limit on depth, recursion or stack
    size - which the default field moves by one level - shows as a depth at which the outcome changes."""
    out = []
    for k in list(range(1, 71)) + [100, 150, 200]:
        out += ["NOT " * k + "a", " ".join(["a"] * (k + 1)), "(a OR " * k + "b" + ")" * k, "x:y AND -(" * (k if k <= 70 else k // 2) + "z" + ")" * (k if k <= 70 else k // 2),   # two levels per repetition; TLC reads 255 at most
                "+" * 1 + "(" * k + "a:b" + ")" * k, "f:(" * k + "a" + ")" * k, " OR ".join(["a:b"] * (k + 1)), "a" + "^2" * 1 + " AND b" * k,
                "NOT(" * k + "a b" + ")" * k]
    return out


def check_C10(run):
    common_assumptions(run)
    enum_pipeline(run, "C10", observe=True)
    trees_pipeline(run, "C10", observe=True)
    # ... and longer value lists.  With a default field a list is a nested OR chain, which TLC's JSON reader follows to 255 levels only, and
    # the recorder needs minutes for 65536 values: parameter-count thresholds (255, 32767, 65535) are therefore NOT explored
    big = ["id:(" + " OR ".join(str(i) for i in range(n)) + ")" for n in (50, 100, 200)]
    res, _, _ = stage_texts(run, deep_malformed_texts() + depth_sweep_texts() + big, observe=True, name="deep_malformed")
    stage_judge_enum(run, res, "C10", name="judge_deep_malformed")
    # byte level: arbitrary symbol sequences (NUL, invalid UTF-8, quotes ...) through Parse and both renderers
    import lexfam
    if run.tier == "quick":
        res, tot, hang = lexfam.stage_lex_enum(run, 3, lexfam.FULL_SYMS, observe=True)
        lexfam.stage_judge_lexer(run, res, "C10")
        res, tot, hang = lexfam.stage_lex_enum(run, 0, lexfam.FULL_SYMS, random=10000, rlen=30, name="lex_random", observe=True)
        lexfam.stage_judge_lexer(run, res, "C10", name="judge_lexer_random")
    else:
        res, tot, hang = lexfam.stage_lex_enum(run, 3, lexfam.FULL_SYMS, observe=True)
        lexfam.stage_judge_lexer(run, res, "C10")
        res, tot, hang = lexfam.stage_lex_enum(run, 5, lexfam.SUB_SYMS_SMALL + ["NUL", "BAD"], observe=True, name="lex_enum_sub")
        lexfam.stage_judge_lexer(run, res, "C10", name="judge_lexer_sub")
        res, tot, hang = lexfam.stage_lex_enum(run, 0, lexfam.FULL_SYMS, random=300000, rlen=60, name="lex_random", observe=True)
        lexfam.stage_judge_lexer(run, res, "C10", name="judge_lexer_random")


def check_C11(run):
    common_assumptions(run)
    enum_pipeline(run, "C11")
    trees_pipeline(run, "C11")
    # every nesting depth: the default field makes every bare term one level deeper
    res, _, _ = stage_texts(run, depth_sweep_texts(), name="depth_sweep")
    stage_judge_enum(run, res, "C11", name="judge_depth_sweep")
    # default-field names that need quoting / look like syntax
    # ... names with blanks at the edges, with backslashes, a lone backslash, a lone quote
    for i, df in enumerate(["my field", "a*", "x:y", "\"q\"", "NOT", " notes", "notes ", "\tn", "dir\\name", "tail\\", "\\", "'"]):
        res, _, tot, _ = stage_enum(run, 3 if run.tier == "quick" else 4, FULL_ALPHABET, name="enum_df%d" % i, df=df)
        stage_judge_enum(run, res, "C11", name="judge_enum_df%d" % i)
