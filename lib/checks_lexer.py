"""Per-property pipelines of the lexer family."""
from lexfam import *


def check_C16(run):
    run.assumptions += [
        "TLC 1.8.0 and the CommunityModules Json module evaluate the specification correctly",
        "inputs are sequences over a 50-symbol alphabet with one representative per case of the lexer (letters incl. the keyword letters, "
        "digits, a non-ASCII letter and digit, a 3-byte rune, an invalid byte 0xFF, NUL, every operator, quote and whitespace character); "
        "other characters behave like their class representative",
        "token offsets are read through the tag-guarded accessor Token.VerifPos / Lexer.VerifState; the text of a token is compared with the "
        "input bytes at that offset by the harness (flag text_ok)",
    ]
    if run.tier == "quick":
        stage_mc_lexer(run, 3, SUB_SYMS, 5)
        res, tot, hang = stage_lex_enum(run, 3, FULL_SYMS)
        stage_judge_lexer(run, res, "C16")
        res, tot, hang = stage_lex_enum(run, 5, SUB_SYMS_SMALL, name="lex_enum_sub")
        stage_judge_lexer(run, res, "C16", name="judge_lexer_sub")
        res, tot, hang = stage_lex_enum(run, 0, FULL_SYMS, random=20000, rlen=24, name="lex_random")
        stage_judge_lexer(run, res, "C16", name="judge_lexer_random")
        nrand = 20000
    else:
        stage_mc_lexer(run, 4, SUB_SYMS, 6)
        stage_mc_lexer(run, 3, FULL_SYMS, 4, name="mc_lexer_full")
        # (length 4 over all 57 symbols is 10.5M inputs x 2 schedules and does not fit the stage time limit on a busy machine)
        res, tot, hang = stage_lex_enum(run, 3, FULL_SYMS)
        stage_judge_lexer(run, res, "C16")
        res, tot, hang = stage_lex_enum(run, 4, MID_SYMS, name="lex_enum_mid")
        stage_judge_lexer(run, res, "C16", name="judge_lexer_mid")
        res, tot, hang = stage_lex_enum(run, 6, SUB_SYMS_SMALL, name="lex_enum_sub")
        stage_judge_lexer(run, res, "C16", name="judge_lexer_sub")
        res, tot, hang = stage_lex_enum(run, 0, FULL_SYMS, random=1000000, rlen=64, name="lex_random")
        stage_judge_lexer(run, res, "C16", name="judge_lexer_random")
        nrand = 1000000
    run.exhaustive = True
    run.notes.append("inputs: every symbol sequence up to the length bound over the full alphabet and longer ones over a sub-alphabet "
                     "(exhaustive), plus %d random sequences (seed %d); each with a Next-only schedule and a schedule with Peeks; "
                     "a case is non-trivial when it has at least one token or error" % (nrand, run.seed))


CHECKS = {"C16": check_C16}


def lexical_variants(run, prop, n_full, n_sub, nrand):
    res, tot, hang = stage_lex_enum(run, n_full, FULL_SYMS, variants=(prop == "C09"), observe=(prop == "C01"))
    stage_judge_lexer(run, res, prop)
    res, tot, hang = stage_lex_enum(run, n_sub, SUB_SYMS_SMALL, name="lex_enum_sub", variants=(prop == "C09"), observe=(prop == "C01"))
    stage_judge_lexer(run, res, prop, name="judge_lexer_sub")
    res, tot, hang = stage_lex_enum(run, 0, FULL_SYMS, random=nrand, rlen=24, name="lex_random", variants=(prop == "C09"), observe=(prop == "C01"))
    stage_judge_lexer(run, res, prop, name="judge_lexer_random")


def check_C09(run):
    import checks_parser
    checks_parser.common_assumptions(run)
    run.assumptions.append("whitespace is varied only at boundaries of the original token segmentation (`-1` is one token, `- 1` is not a "
                           "whitespace variant of it); tokens are abutted only where the segmentation survives (GenTrees!CanAbut)")
    # parser level: redundant parentheses, whitespace and keyword-case vectors on generated trees
    checks_parser.trees_pipeline(run, "C09")
    # ever deeper redundant parentheses (1..70 pairs) around the whole query, a field's value, an operand of NOT / OR / AND
    pd = checks_parser.paren_depth_groups(os.path.join(run.work, "paren_depth.ndjson"))
    resp, _, _ = checks_parser.stage_groups(run, pd, name="parse_paren_depth")
    checks_parser.stage_judge_trees(run, resp, "C09", pd, name="judge_paren_depth")
    # lexer level: whitespace at real token boundaries and keyword case on arbitrary symbol sequences
    if run.tier == "quick":
        lexical_variants(run, "C09", 3, 4, 20000)
    else:
        lexical_variants(run, "C09", 3, 5, 300000)   # length 4 over the 54-symbol alphabet (8.5M sequences x variants) and length 6 over the 14-symbol sub-alphabet (7.5M x variants) do not finish in an hour
    run.exhaustive = True
    run.notes.append("layout variants of every symbol sequence up to the length bound (lead / trail / every gap / all + keyword case), "
                     "whitespace kind chosen with seed %d" % run.seed)


CHECKS["C09"] = check_C09


def check_C08(run):
    run.assumptions += [
        "TLC 1.8.0 and the CommunityModules Json module evaluate the specification correctly",
        "value strings are sequences over a 47-symbol alphabet (every class of the lexer, quotes, backslash, wildcards, SQL metacharacters, "
        "2- and 3-byte runes); strings travel as byte-code sequences and are compared by TLC",
        "the inline SQL constant is decoded by PostgreSQL's own parser (pg_query_go v4.2.3, PostgreSQL 15 grammar, standard_conforming_strings on)",
        "'special character' = every character that is not a letter, digit or underscore; 'looks like a number' = anything Go's Atoi/ParseFloat "
        "accept (or reject only for range); a bare AND/OR/NOT/TO in any case is the keyword, the escaping clause does not apply to it",
    ]
    from lexfam import stage_mc_lexer
    stage_mc_lexer(run, 3, SUB_SYMS, 4)
    # whole words that mean something to SQL or to Go's number parsing, alone and next to every symbol
    res, tot = stage_quote_enum(run, 0, VALUE_SYMS, name="quote_words", words=True)
    stage_judge_quote(run, res, name="judge_quote_words")
    if run.tier == "quick":
        res, tot = stage_quote_enum(run, 2, VALUE_SYMS)
        stage_judge_quote(run, res)
        res, tot = stage_quote_enum(run, 4, VALUE_SUB[:12], name="quote_enum_sub")
        stage_judge_quote(run, res, name="judge_quote_sub")
        res, tot = stage_quote_enum(run, 0, VALUE_SYMS, random=10000, rlen=60, name="quote_random")
        stage_judge_quote(run, res, name="judge_quote_random")
    else:
        res, tot = stage_quote_enum(run, 3, VALUE_SYMS)
        stage_judge_quote(run, res)
        res, tot = stage_quote_enum(run, 5, VALUE_SUB[:12], name="quote_enum_sub")
        stage_judge_quote(run, res, name="judge_quote_sub")
        res, tot = stage_quote_enum(run, 0, VALUE_SYMS, random=300000, rlen=200, name="quote_random")
        stage_judge_quote(run, res, name="judge_quote_random")
    run.exhaustive = True
    run.notes.append("every string up to the length bound over the value alphabet (exhaustive) and random longer ones (seed %d), each written "
                     "between double quotes and, when it is not a number or keyword, as an escaped bare word" % run.seed)


CHECKS["C08"] = check_C08
