"""Render family: stages for C15, C02, C03, C04."""
import json, os, re, shutil
from vlib import *
from parserfam import stage_gen_trees, stage_mc_parser, stage_groups, stage_judge_trees


def stage_fold_groups(run, casefile, name="fold_groups"):
    res = os.path.join(run.work, name + ".ndjson")
    s = run.harness(["fold-groups", "-in", casefile, "-out", res])
    run.stage(name, **s)
    run.evaluations += s.get("renders", 0)
    return res


def stage_judge_fold(run, resfile, name="judge_fold"):
    for line in first_lines(resfile, 900)[-1:]:
        c = json.loads(line)
        other = c["runs"][1] if len(c["runs"]) > 1 else c["runs"][0]
        run.add_sample({"kind": "Render with tracing functions", "q": c["q"], "calls_all_traced": c["runs"][0]["calls"][:10],
                        "out": c["runs"][0]["out"], "one_removed": {"op": other["mop"], "outcome": other["outcome"], "out": other["out"]}})
    j, vfiles, d = run.judge(name, "JudgeFold", "C15", resfile, unit=1500)
    run.traces += j["judged"]
    run.distinct += j["judged"]
    run.stage(name, renders_judged=j["judged"], failures=j["failures"], known=j["known"], secs=j["secs"], jvms=j["jvms"], fold_model_drift=j.get("drift", 0))
    if j.get("drift", 0):
        run.drift.append({"stage": name, "what": "%d renders differ from the exact parenthesisation of Fold.tla (allowed by the property)" % j["drift"]})
    docs = "docs" in name
    for vf in vfiles:
        run.add_verdicts(vf, lambda v: {"pipeline": "foldtext", "q": v.get("q"), "doc": docs})


def replay_fold(run, rp):
    sub = Run(run.prop, run.tier, run.seed, replay=True)
    sub.work = run.sub("replay_%d" % len(os.listdir(run.work)))
    res = os.path.join(sub.work, "res.ndjson")
    if rp.get("doc"):
        one = os.path.join(sub.work, "one.ndjson")
        open(one, "w").write(json.dumps({"id": 1, "doc": rp["q"]}) + "\n")
        sub.harness(["fold-docs", "-in", one, "-out", res])
    else:
        one = os.path.join(sub.work, "one_text.ndjson")          # through a file: a text may hold a NUL, which no argv can
        open(one, "w").write(json.dumps(rp["q"]) + "\n")
        sub.harness(["fold-text", "-in", one, "-out", res])
    stage_judge_fold(sub, res)
    return bool(sub.failures) or bool(sub.known)


REPLAYERS["foldtext"] = replay_fold


# ---- SQL properties --------------------------------------------------------------------------------
GENSQL_CFG = """SPECIFICATION Spec
CONSTANTS
  OutFile = "cases.ndjson"
  Tier = "%s"
POSTCONDITION Post
CHECK_DEADLOCK FALSE
"""


def stage_mc_render(run, kinds, depth=2, name="mc_render"):
    """TLC checks the driver model itself (Render.tla) over the generator's tree space: the model-level form of C04."""
    cases, g = stage_gen_trees(run, kinds, depth, ws=0, name="gen_" + name)
    d = run.sub(name)
    shutil.copy(cases, os.path.join(d, "cases.ndjson"))
    cfg = "SPECIFICATION Spec\nCONSTANTS\n  CaseFile = \"cases.ndjson\"\nINVARIANTS C04Model QuoteModel Covered\nCHECK_DEADLOCK FALSE\n"
    out, rc, secs = run.tlc(d, "MC_Render", cfg, workers=1, timeout=1800, xss=True)
    gen, dist = run.tlc_stats(out)
    err = run.tlc_error(out)
    run.states += dist
    run.transitions += gen
    run.stage(name, leaf_kinds=kinds, depth=depth, trees=g["trees"], states=dist, invariants=["C04Model", "QuoteModel"], secs=round(secs, 1), error=err)
    if err:
        # a model-level counterexample is a lead, not a verdict: the model is bound to the code by the RENDER-DRIFT comparison
        run.notes.append("MODEL: TLC reported '%s' on the driver model (see %s/MC_Render.out); verdicts still come from the real code" % (err, d))
        run.drift.append({"stage": name, "what": "the driver model violates its own invariant: " + str(err)[:200]})
    if gen == 0:
        raise Broken("TLC produced no states for MC_Render: " + out[-800:])
    os.remove(os.path.join(d, "cases.ndjson"))


def stage_gen_sql(run, module="GenSql", name="gen_sql"):
    d = run.sub(name)
    out, rc, secs = run.tlc(d, module, GENSQL_CFG % run.tier, workers=1, timeout=1800, seed=run.seed, xss=True)
    m = re.search(r'"GENERATED (.*)"', out)
    if not m:
        raise Broken("%s failed: %s" % (module, run.tlc_error(out) or out[-600:]))
    g = json.loads(json.loads('"' + m.group(1) + '"'))
    run.stage(name, secs=round(secs, 1), **g)
    return os.path.join(d, "cases.ndjson"), g


def stage_sql_cases(run, casefile, name="sql_cases"):
    res = os.path.join(run.work, name + ".ndjson")
    s = run.harness(["sql-cases", "-in", casefile, "-out", res])
    run.stage(name, **s)
    run.evaluations += s.get("calls", 0)
    return res


def stage_judge_sql(run, resfile, prop, name="judge_sql", keep=False):
    for line in first_lines(resfile, 200)[-2:]:
        c = json.loads(line)
        run.add_sample({"kind": "query rendered and read back by PostgreSQL's parser", "q": c["q"], "inline_sql": c["inline"]["text"],
                        "param_sql": c["param"]["text"], "params": [p["text"] for p in c["param"]["params"]], "ast": c["inline"]["read"]["ast"]})
    j, vfiles, d = run.judge(name, "JudgeSql", prop, resfile, unit=400, keep=True)
    run.traces += j["judged"]
    run.distinct += j["judged"]
    run.stage(name, prop=prop, cases_judged=j["judged"], failures=j["failures"], known=j["known"], secs=j["secs"], jvms=j["jvms"],
              render_model_predicted=j.get("render_predicted", 0), render_model_drift=j.get("render_drift", 0))
    # the generator's case of every failure travels in its replay recipe (without what the recorder observed)
    wanted, cases = set(), {}
    for vf in vfiles:
        for l in open(vf):
            if l.strip():
                wanted.add(json.loads(l).get("id"))
    if wanted:
        for l in open(resfile):
            c = json.loads(l)
            if c.get("id") in wanted:
                cases[c["id"]] = {k: v for k, v in c.items() if k not in ("inline", "param", "parse", "tree", "alt_param")}
    if not keep:
        os.remove(resfile)
    if j.get("render_drift", 0):
        run.drift.append({"stage": name, "what": "SQL text or parameters differ from the driver model Render.tla for %d cases" % j["render_drift"],
                          "examples": j.get("drift_examples", [])[:3]})
    for vf in vfiles:
        run.add_verdicts(vf, lambda v: {"pipeline": "sqlcase", "case": cases.get(v.get("id")), "q": v.get("q"), "prop": prop})


def replay_sqlcase(run, rp):
    if not rp.get("case"):
        raise Broken("replay: the recipe carries no case")
    sub = Run(run.prop, run.tier, run.seed, replay=True)
    sub.work = run.sub("replay_%d" % len(os.listdir(run.work)))
    cf = os.path.join(sub.work, "one.ndjson")
    open(cf, "w").write(json.dumps(rp["case"]) + "\n")
    res = stage_sql_cases(sub, cf)
    stage_judge_sql(sub, res, rp["prop"])
    return bool(sub.failures) or bool(sub.known)


REPLAYERS["sqlcase"] = replay_sqlcase
