"""Driver library for /verif/bin/check.

Orchestration only: build the recorder from /repo's working tree, run TLC on the specification in
/verif/spec (model checking, generation, trace validation, judging), classify the verdicts TLC wrote
against /verif/known_findings.json, write /verif/evidence/<id>.json.  No property is decided here:
every verdict is a TLA+ predicate evaluated by TLC on behaviour recorded from the real code.
Exit codes: 0 held / only known findings, 1 violation (reproduced by replay), 2 machinery broken.
"""
import json, os, re, shutil, subprocess, sys, time, hashlib, random

VERIF = os.path.dirname(os.path.dirname(os.path.abspath(__file__)))
REPO = os.environ.get("VERIF_REPO", "/repo")
SPEC = os.path.join(VERIF, "spec")
WORKROOT = os.path.join(VERIF, ".work")
HARNESS_BIN = os.path.join(WORKROOT, "bin", "harness" if REPO == "/repo" else "harness_" + hashlib.sha1(REPO.encode()).hexdigest()[:8])
NPROC = min(16, os.cpu_count() or 4)

GOENV = dict(os.environ, GOFLAGS="-mod=mod", GOPROXY="off", GOSUMDB="off", GOTOOLCHAIN="local", GOWORK="off")

FULL_ALPHABET = ["word", "quoted", "wild", "star", "regexp", "int", "zint", "nint", "float",
                 "EQUAL", "GREATER", "LESS", "COLON", "PLUS", "MINUS", "TILDE", "CARROT", "NOT", "AND", "OR",
                 "RPAREN", "LPAREN", "LCURLY", "RCURLY", "TO", "LSQUARE", "RSQUARE", "ERR"]
# symmetry-reduced alphabet for one more token: > ~ <, [ ~ {, ] ~ }, one string and one number terminal
REDUCED_ALPHABET = ["word", "wild", "int", "COLON", "GREATER", "EQUAL", "PLUS", "MINUS", "TILDE", "CARROT",
                    "NOT", "AND", "OR", "RPAREN", "LPAREN", "TO", "LSQUARE", "RSQUARE"]


REPLAYERS = {}   # pipeline name -> function(run, recipe) -> bool (failure recurs); filled by the family modules


class Broken(Exception):
    """The machinery failed (tool crash, timeout, unreproduced counterexample): exit 2."""


def log(msg):
    print(msg, flush=True)


def tla_set(items):
    return "{" + ", ".join('"%s"' % i for i in items) + "}"


def reap_stale_work(max_age_s=7200):
    """Failed runs keep their work directory for inspection; remove those whose process is gone and that are old."""
    now = time.time()
    try:
        names = os.listdir(WORKROOT)
    except OSError:
        return
    for n in names:
        m = re.match(r"^(?:C\d\d_(?:quick|thorough|replay)|harness_src)_(\d+)$", n)
        if not m:
            continue
        d = os.path.join(WORKROOT, n)
        try:
            if now - os.path.getmtime(d) < max_age_s:
                continue
            os.kill(int(m.group(1)), 0)
        except ProcessLookupError:
            shutil.rmtree(d, ignore_errors=True)
        except OSError:
            pass


class Run:
    def __init__(self, prop, tier, seed, replay=None):
        self.prop, self.tier, self.seed, self.replay = prop, tier, seed, replay
        self.t0 = time.time()
        self.work = os.path.join(WORKROOT, "%s_%s_%d" % (prop, "replay" if replay else tier, os.getpid()))
        shutil.rmtree(self.work, ignore_errors=True)
        os.makedirs(self.work)
        reap_stale_work()
        self.states = 0          # distinct states over the model-checking runs of this check
        self.transitions = 0     # states generated (= transitions explored)
        self.traces = 0          # real executions validated against / judged by the specification
        self.evaluations = 0
        self.distinct = 0
        self.samples = []
        self.stages = []
        self.failures = []       # open failures (dicts from TLC verdict files)
        self.known = {}          # kf id -> {count, examples}
        self.drift = []
        self.assumptions = []
        self.exhaustive = False
        self.notes = []

    # ---- tools -------------------------------------------------------------------------------
    def sub(self, name):
        d = os.path.join(self.work, name)
        os.makedirs(d, exist_ok=True)
        return d

    def stage(self, name, **kw):
        kw["stage"] = name
        kw["t"] = round(time.time() - self.t0, 1)
        self.stages.append(kw)
        log("  [%6.1fs] %-28s %s" % (kw["t"], name, json.dumps({k: v for k, v in kw.items() if k not in ("stage", "t")})[:300]))

    def tlc(self, d, module, cfg, workers=1, timeout=1800, seed=None, xss=False, simulate=None, depth=None):
        """Run TLC in directory d (spec copied there). Returns stdout; raises Broken on tool failure."""
        for f in os.listdir(SPEC):
            if f.endswith(".tla"):
                shutil.copy(os.path.join(SPEC, f), d)
        cfgp = os.path.join(d, module + ".cfg")
        with open(cfgp, "w") as f:
            f.write(cfg)
        cmd = ["tlc", "-checkpoint", "0", "-workers", str(workers), "-metadir", os.path.join(d, "meta_" + module), "-config", cfgp]
        if seed is not None:
            cmd += ["-seed", str(seed)]
        if simulate:
            cmd += ["-simulate", simulate]
        if depth:
            cmd += ["-depth", str(depth)]
        cmd.append(module + ".tla")
        env = dict(os.environ)
        # a small young generation keeps TLC's allocation churn in memory that is already mapped: page faults
        # are very expensive in this sandbox (measured: -Xmn1g 19 s, default 25 s, -Xmn4g 37 s on the same run)
        env["JAVA_TOOL_OPTIONS"] = "-Xss512m " + ("-Xmn1g" if workers > 1 else "-Xmn512m -XX:ParallelGCThreads=2")
        cmd = ["timeout", "-s", "KILL", str(timeout)] + cmd
        t = time.time()
        p = subprocess.run(cmd, cwd=d, env=env, stdout=subprocess.PIPE, stderr=subprocess.STDOUT, text=True)
        if p.returncode in (137, -9):
            raise Broken("TLC timeout after %ss: %s" % (timeout, module))
        out = p.stdout
        with open(os.path.join(d, module + ".out"), "w") as f:
            f.write(out)
        shutil.rmtree(os.path.join(d, "meta_" + module), ignore_errors=True)
        return out, p.returncode, time.time() - t

    @staticmethod
    def tlc_stats(out):
        m = re.search(r"(\d+) states generated, (\d+) distinct states found, (\d+) states left", out)
        if not m:
            return 0, 0
        return int(m.group(1)), int(m.group(2))

    @staticmethod
    def tlc_error(out):
        """Return a short description of a TLC error (invariant violation or evaluation error), or None."""
        if "Model checking completed. No error has been found." in out or "Finished computing" in out and "Error:" not in out and "is violated" not in out:
            if "Error:" not in out:
                return None
        m = re.search(r"Error: (.*)", out)
        if m:
            return m.group(1)[:300]
        if "is violated" in out:
            return "invariant violated"
        return None

    def harness(self, args, timeout=3600):
        try:
            p = subprocess.run([HARNESS_BIN] + args, stdout=subprocess.PIPE, stderr=subprocess.PIPE, timeout=timeout, text=True, cwd=self.work)
        except subprocess.TimeoutExpired:
            raise Broken("harness timeout: %s" % args[0])
        if p.returncode == 3:
            return {"hang": True, "stderr": p.stderr}
        if p.returncode != 0:
            raise Broken("harness %s failed (%d): %s" % (args[0], p.returncode, p.stderr[-500:]))
        m = re.search(r"SUMMARY (.*)", p.stdout)
        return json.loads(m.group(1)) if m else {}

    def harness_parallel(self, argsets, timeout=3600):
        procs = [subprocess.Popen([HARNESS_BIN] + a, stdout=subprocess.PIPE, stderr=subprocess.PIPE, text=True, cwd=self.work) for a in argsets]
        sums = []
        for p, a in zip(procs, argsets):
            try:
                o, e = p.communicate(timeout=timeout)
            except subprocess.TimeoutExpired:
                p.kill()
                raise Broken("harness timeout: %s" % a[0])
            if p.returncode == 3:
                sums.append({"hang": True})
                continue
            if p.returncode != 0:
                raise Broken("harness %s failed (%d): %s" % (a[0], p.returncode, e[-500:]))
            m = re.search(r"SUMMARY (.*)", o)
            sums.append(json.loads(m.group(1)) if m else {})
        return sums

    def judge(self, name, module, prop, resfile, unit=2500, keep=False, timeout=3000):
        """Run a Judge* module over resfile, split round-robin over several single-worker JVMs.
        Returns (summed JUDGED counters, list of verdict files, directory)."""
        d = self.sub(name)
        nlines = count_lines(resfile)
        kj = max(1, min(NPROC, 12, (nlines + unit - 1) // unit))     # JVMs at a time: 12 x 3 GB heap stay well inside 62 GB
        # a JVM reads its whole part before judging it: parts are kept below ~100 MB and run in waves of kj processes
        k = max(kj, (os.path.getsize(resfile) + (100 << 20) - 1) // (100 << 20))
        parts = [os.path.join(d, "part%d" % i) for i in range(k)]
        for pd in parts:
            os.makedirs(pd, exist_ok=True)
        outs = [open(os.path.join(pd, "res.ndjson"), "w") for pd in parts]
        with open(resfile) as f:
            for i, line in enumerate(f):
                outs[i % k].write(line)
        for o in outs:
            o.close()
        if not keep:
            os.remove(resfile)
        cfg = ("SPECIFICATION Spec\nCONSTANTS\n  ResFile = \"res.ndjson\"\n  VerdictFile = \"verdicts.ndjson\"\n"
               "  Prop = \"%s\"\n  Shards = 1\nINVARIANT Report\nCHECK_DEADLOCK FALSE\n" % prop)
        env = dict(os.environ, JAVA_TOOL_OPTIONS="-Xss512m -Xmn512m -XX:ParallelGCThreads=2 -Xmx%dg" % max(3, min(12, 40 // kj)))   # 2 GC threads: up to 12 JVMs share 16 cores
        t = time.time()
        outputs = {}
        for w0 in range(0, k, kj):
            wave = parts[w0:w0 + kj]
            procs = []
            for pd in wave:
                for f in os.listdir(SPEC):
                    if f.endswith(".tla"):
                        shutil.copy(os.path.join(SPEC, f), pd)
                open(os.path.join(pd, module + ".cfg"), "w").write(cfg)
                cmd = ["timeout", "-s", "KILL", str(timeout), "tlc", "-checkpoint", "0", "-workers", "1", "-metadir", os.path.join(pd, "meta"),
                       "-config", os.path.join(pd, module + ".cfg"), module + ".tla"]
                procs.append(subprocess.Popen(cmd, cwd=pd, env=env, stdout=subprocess.PIPE, stderr=subprocess.STDOUT, text=True))
            for pd, pr in zip(wave, procs):
                outputs[pd] = pr.communicate()[0]
                if not keep and os.path.exists(os.path.join(pd, "res.ndjson")) and '"JUDGED ' in outputs[pd]:
                    os.remove(os.path.join(pd, "res.ndjson"))       # judged: free the disk space
        tot, vfiles, gen, dist = {}, [], 0, 0
        for pd in parts:
            out = outputs[pd]
            open(os.path.join(pd, module + ".out"), "w").write(out)
            shutil.rmtree(os.path.join(pd, "meta"), ignore_errors=True)
            m = re.search(r'"JUDGED (.*)"', out)
            if not m:
                raise Broken("%s did not finish in %s: %s" % (module, pd, (self.tlc_error(out) or out[-600:])))
            j = json.loads(json.loads('"' + m.group(1) + '"'))
            for kk, v in j.items():
                if isinstance(v, int) and kk != "shard":
                    tot[kk] = tot.get(kk, 0) + v
            for dm in re.finditer(r'"((?:RENDER|MODEL|PRINT)-DRIFT) (.*)"', out):
                if len(tot.setdefault("drift_examples", [])) < 5:
                    try:
                        tot["drift_examples"].append(json.loads(json.loads('"' + dm.group(2) + '"')))
                    except ValueError:
                        tot["drift_examples"].append(dm.group(2)[:300])
            g2, d2 = self.tlc_stats(out)
            gen += g2
            dist += d2
            vf = os.path.join(pd, "verdicts.ndjson.0")
            if os.path.exists(vf):
                vfiles.append(vf)
        self.states += dist
        self.transitions += gen
        tot["secs"] = round(time.time() - t, 1)
        tot["jvms"] = kj
        tot["parts"] = k
        return tot, vfiles, d

    # ---- verdict bookkeeping -----------------------------------------------------------------
    def add_verdicts(self, path, replay_maker):
        """Read the failures TLC wrote; split into open ones and known-finding hits."""
        if not os.path.exists(path):
            return
        for line in open(path):
            line = line.strip()
            if not line:
                continue
            v = json.loads(line)
            kf = v.get("kf", "none")
            if kf != "none":
                k = self.known.setdefault(kf, {"count": 0, "examples": []})
                k["count"] += 1
                if len(k["examples"]) < 3:
                    k["examples"].append(v.get("q", v.get("id")))
            else:
                v["_replay"] = replay_maker(v)
                self.failures.append(v)

    def add_sample(self, s):
        if len(self.samples) < 12:
            self.samples.append(s)


def build_harness():
    os.makedirs(os.path.dirname(HARNESS_BIN), exist_ok=True)
    src = os.path.join(VERIF, "harness")
    mod = open(os.path.join(src, "go.mod")).read()
    # honour VERIF_REPO (self-tests on scratch copies); the committed go.mod points at /repo
    if REPO != "/repo":
        tmp = os.path.join(WORKROOT, "harness_src_%d" % os.getpid())
        shutil.rmtree(tmp, ignore_errors=True)
        import atexit
        atexit.register(lambda: shutil.rmtree(tmp, ignore_errors=True))
        shutil.copytree(src, tmp)
        open(os.path.join(tmp, "go.mod"), "w").write(mod.replace("=> /repo", "=> " + REPO))
        src = tmp
    p = subprocess.run(["go", "build", "-tags", "verif", "-o", HARNESS_BIN, "."], cwd=src, env=GOENV,
                       stdout=subprocess.PIPE, stderr=subprocess.STDOUT, text=True)
    if p.returncode != 0:
        raise Broken("cannot build the harness against %s:\n%s" % (REPO, p.stdout[-2000:]))


def load_known():
    p = os.path.join(VERIF, "known_findings.json")
    if not os.path.exists(p):
        return {}
    d = json.load(open(p))
    return {f["id"]: f for f in d.get("findings", []) if f.get("status", "open") == "open"}


def cat_files(paths, out):
    with open(out, "wb") as w:
        for p in paths:
            with open(p, "rb") as r:
                shutil.copyfileobj(r, w)


def count_lines(path):
    n = 0
    with open(path, "rb") as f:
        for _ in f:
            n += 1
    return n


def first_lines(path, k):
    out = []
    with open(path) as f:
        for line in f:
            out.append(line)
            if len(out) >= k:
                break
    return out


def history_replay(prop, tier, seed, key):
    """Second line of confirmation for failures that depend on the calls made before them (state carried
    between calls): run the whole check again in a fresh process and see whether the same failure recurs."""
    out = os.path.join(WORKROOT, "history_%d.json" % os.getpid())
    env = dict(os.environ, VERIF_HISTORY_KEYS=out, VERIF_NO_EVIDENCE="1", VERIF_SEED=str(seed))
    subprocess.run([os.path.join(VERIF, "bin", "check"), prop, tier], env=env, stdout=subprocess.DEVNULL, stderr=subprocess.DEVNULL)
    try:
        keys = json.load(open(out))
    except (OSError, ValueError):
        return False
    finally:
        if os.path.exists(out):
            os.remove(out)
    return list(key) in keys


REPLAYERS["history"] = lambda run, rp: history_replay(run.prop, rp["tier"], rp["seed"], rp["key"])


def finish(run, level_text=""):
    """Classify, confirm, write evidence, print lines, return exit code."""
    known = load_known()
    if os.environ.get("VERIF_HISTORY_KEYS"):   # the second run of a history replay: report the failures, decide nothing
        keys = [[v.get("clause"), str(v.get("q"))[:200]] for v in run.failures]
        json.dump(keys, open(os.environ["VERIF_HISTORY_KEYS"], "w"))
        shutil.rmtree(run.work, ignore_errors=True)
        return 0
    code = 0
    lines = []
    # known findings hit in this run
    for kf, info in sorted(run.known.items()):
        if kf in known and known[kf]["property"] == run.prop:
            lines.append("KNOWN-FINDING: property=%s %s: %s (%d cases this run, e.g. %s)" % (
                run.prop, kf, known[kf]["what"], info["count"], json.dumps(info["examples"][:2])))
        else:
            # a signature matched that is not (or no longer) listed as open: that is a violation
            run.failures.append({"prop": run.prop, "clause": "matches known-finding signature %s which is not listed as open" % kf,
                                 "q": info["examples"][0] if info["examples"] else "", "_replay": None})
    violations = 0
    if run.failures:
        os.makedirs(os.path.join(WORKROOT, "replays"), exist_ok=True)
        seen = set()
        for v in run.failures[:50]:
            key = (v.get("clause"), str(v.get("q"))[:200])
            if key in seen:
                continue
            seen.add(key)
            rp = v.get("_replay")
            if rp and rp.get("pipeline") in REPLAYERS:
                if not REPLAYERS[rp["pipeline"]](run, rp):
                    if "hang" in str(v.get("clause")) or "killed" in str(v.get("clause")):
                        # a watchdog observation (wall clock) that does not recur when the input is run alone: machine load, no verdict
                        lines.append("NOTE: a time limit was exceeded once and not again when the input was run alone (machine load): %s" % json.dumps(key)[:200])
                        run.notes.append("timing observation not reproduced and discarded: %s" % json.dumps(key)[:200])
                        continue
                    # not a function of this one input: does it recur when the same history of calls is made again?
                    if run.replay or not history_replay(run.prop, run.tier, run.seed, key):
                        raise Broken("failure not reproduced by single-case replay: %s" % json.dumps(key)[:300])
                    rp = {"pipeline": "history", "tier": run.tier, "seed": run.seed, "key": list(key),
                          "note": "occurs only after the calls the check makes before it (state carried between calls)"}
            path = os.path.join(WORKROOT, "replays", "%s_%s.json" % (run.prop, hashlib.sha1(json.dumps(key).encode()).hexdigest()[:12]))
            json.dump({"property": run.prop, "failure": {k: x for k, x in v.items() if not k.startswith("_")}, "replay": rp}, open(path, "w"), indent=1)
            lines.append("VIOLATION property=%s replay=%s" % (run.prop, path))
            lines.append("  clause: %s; case: %s" % (v.get("clause"), json.dumps(v.get("q"))[:300]))
            violations += 1
            if violations >= 5:
                break
        code = 1 if violations else 0
    for d in run.drift[:5]:
        lines.append("DRIFT: model and code differ (not a property verdict): %s" % json.dumps(d)[:300])
    ev = {
        "property_id": run.prop, "tier": run.tier, "seed": run.seed, "level": "model_checking",
        "coverage": {
            "states": max(run.states, 1), "transitions": max(run.transitions, 1),
            "traces_validated_against_impl": run.traces,
            "samples": run.samples or ["(none)"],
            "evaluations": max(run.evaluations, 1), "distinct_nontrivial": max(run.distinct, 2),
            "rule": "; ".join(run.notes),
            "exhaustive": run.exhaustive,
            "stages": run.stages,
            "model_conformant": not run.drift,
            "drift": run.drift[:10],
            "known_findings_hit": {k: v["count"] for k, v in run.known.items()},
        },
        "assumptions": run.assumptions,
        "wall_s": round(time.time() - run.t0, 1),
        "violations": violations,
    }
    if not run.replay and not os.environ.get("VERIF_NO_EVIDENCE"):
        os.makedirs(os.path.join(VERIF, "evidence"), exist_ok=True)
        json.dump(ev, open(os.path.join(VERIF, "evidence", run.prop + ".json"), "w"), indent=1)
    for l in lines:
        log(l)
    log("%s %s: %s in %.0fs (states=%d transitions=%d real executions judged=%d)" % (
        run.prop, run.tier, "VIOLATED" if code else "held", time.time() - run.t0, run.states, run.transitions, run.traces))
    if code == 0:
        shutil.rmtree(run.work, ignore_errors=True)
    return code
