"""JSON family: C12 (round trip) and C13 (untrusted documents)."""
import json, os, re
from vlib import *
from parserfam import (stage_gen_trees, stage_groups, stage_judge_trees, stage_enum, stage_judge_enum, stage_mc_parser, FULL_ALPHABET)
from lexfam import FULL_SYMS
import checks_parser


def stage_lex_json(run, n, alphabet, name="lex_json", random=0, rlen=16):
    outs, argsets = [], []
    k = NPROC if not random else 1
    for i in range(k):
        o = os.path.join(run.work, "%s_%d.ndjson" % (name, i))
        a = ["lex-enum", "-n", str(n), "-alphabet", ",".join(alphabet), "-out", o, "-shard", "%d/%d" % (i, k), "-json"]
        if random:
            a += ["-random", str(random), "-len", str(rlen), "-seed", str(run.seed + 5)]
        outs.append(o)
        argsets.append(a)
    sums = run.harness_parallel(argsets)
    res = os.path.join(run.work, name + ".ndjson")
    cat_files(outs, res)
    for o in outs:
        os.remove(o)
    tot = sum(s.get("inputs", 0) for s in sums)
    run.stage(name, symbols=len(alphabet), max_len=n, random=random, parsed_inputs=tot)
    run.evaluations += tot
    return res


def check_C12(run):
    checks_parser.common_assumptions(run)
    run.assumptions.append("byte equality of the two encodings, text equality of String()/SQL and reflect.DeepEqual are computed by the harness on the real "
                           "values and recorded as flags next to both tree dumps; TLC evaluates the clauses and compares the dumps; 'inferable' is the "
                           "property's own exception list evaluated on per-leaf textual facts (contains * or ?, slash-delimited, integer-valued float)")
    stage_mc_parser(run, 3, FULL_ALPHABET, emit=False)
    # the codec MECH (ExprJson.tla) against the REF of C12 (RoundTrip.tla): every small tree x every combination of leaf facts
    d = run.sub("mc_exprjson")
    out, rc, secs = run.tlc(d, "MC_ExprJson", "SPECIFICATION Spec\nINVARIANTS InferableRoundTrips Idempotent\nCHECK_DEADLOCK FALSE\n", workers=4, timeout=600)
    gen, dist = run.tlc_stats(out)
    err = run.tlc_error(out)
    run.states += dist
    run.transitions += gen
    run.stage("mc_exprjson", trees=dist, invariants=["InferableRoundTrips", "Idempotent"], error=err, secs=round(secs, 1))
    if dist == 0:
        raise Broken("MC_ExprJson produced no states: " + out[-500:])
    if err:
        run.notes.append("MODEL: TLC reported '%s' on the codec model; verdicts still come from the real code" % err)
    kinds = checks_parser.DEEP_KINDS + ["feqifloat", "feqempty", "barefloat"]
    if run.tier == "quick":
        cases, g = stage_gen_trees(run, ["bare", "feq", "feqq", "fwild", "frange", "flist"], 2, ws=0)
        res, _, _ = stage_groups(run, cases, json=True)
        stage_judge_trees(run, res, "C12", cases)
        cases, g = stage_gen_trees(run, kinds, 3, ws=0, sample=1500, muts=1, name="gen_deep")
        res, _, _ = stage_groups(run, cases, json=True, prints=True, name="parse_deep")
        stage_judge_trees(run, res, "C12", cases, name="judge_deep")
        res, _, tot, _ = stage_enum(run, 4, FULL_ALPHABET, json=True)
        stage_judge_enum(run, res, "C12")
        res = stage_lex_json(run, 3, FULL_SYMS)
        stage_judge_enum(run, res, "C12", name="judge_lex_json")
    else:
        cases, g = stage_gen_trees(run, checks_parser.THOROUGH_KINDS + ["feqifloat", "feqempty"], 2, ws=0)
        res, _, _ = stage_groups(run, cases, json=True)
        stage_judge_trees(run, res, "C12", cases)
        for depth, n in [(3, 20000), (5, 8000)]:
            cases, g = stage_gen_trees(run, kinds, depth, ws=0, sample=n, muts=1, name="gen_deep%d" % depth)
            res, _, _ = stage_groups(run, cases, json=True, prints=True, name="parse_deep%d" % depth)
            stage_judge_trees(run, res, "C12", cases, name="judge_deep%d" % depth)
        res, _, tot, _ = stage_enum(run, 5, FULL_ALPHABET, json=True)
        stage_judge_enum(run, res, "C12")
        res = stage_lex_json(run, 4, FULL_SYMS)
        stage_judge_enum(run, res, "C12", name="judge_lex_json")
        res = stage_lex_json(run, 0, FULL_SYMS, random=500000, rlen=24, name="lex_json_random")
        stage_judge_enum(run, res, "C12", name="judge_lex_json_random")
    # numbers whose JSON spelling has no decimal point or an exponent, negative zero, integers beyond int64 / 2^53
    from parserfam import stage_texts
    special = ["f:1e-07", "f:0.0000001", "f:6e21", "f:6e+21x", "f:100000000000000000000", "f:1e308", "f:[1e-07 TO 1]", "f:(1e-07 OR 2)",
               "f:<2e-9", "f:>=6e21", "f:0.5 AND g:1.5e-7", "f:12345678901234567890", "f:[1 TO 123456789012]", "f:1.0", "f:-1.0", "f:[1.0 TO 2.0]",
               "f:(1.0 OR 2)", "f:-0.0", "f:[-0.0 TO 1]", "f:[9007199254740993 TO *]", "f:[1 TO 12345678901234567890123]",
               "f:9007199254740993", "f:(9007199254740993 OR 2)", "f:x~0", "f:x~1", "f:x~5", "f:x^1", "f:x^0.5", "f:x^3", "\"\"", "f:\"\"", "f:\" \"", "f:a\\*b", "f:\"/x/\"", "f:\"/\"",
               "f:/a b/", "f:[\"a b\" TO \"c*\"]", "f:(\"a*\" OR b)", "f:\u00e9t\u00e9", "\u5b57:\u5b57*",
               # regexps whose body ends in escaped characters (the closing slash is or is not escaped)
               "f:/ab\\\\/", "f:/a\\/b/", "f:/\\\\/", "/ab\\\\/ AND x", "f:/a*\\\\/", "f:/a\\\\\\/b/", "f:/a\\/", "NOT f:/x\\\\/",
               # a quoted star as a range bound (a value, and a WILD after decoding); floats beyond int64 as bounds
               "f:[\"*\" TO 5]", "f:[1 TO \"*\"]", "f:{\"*\" TO \"*\"}", "f:[1e19 TO *]", "f:[-1e19 TO 1e19]", "f:[* TO 18446744073709551616]", "f:1e19"]
    res, _, _ = stage_texts(run, special, name="special_texts", with_json=True)
    stage_judge_enum(run, res, "C12", name="judge_special")
    res, _, _ = stage_texts(run, checks_parser.zoo_texts(), name="zoo_texts", with_json=True)
    stage_judge_enum(run, res, "C12", name="judge_zoo_texts")
    run.exhaustive = True
    run.notes.append("every expression Parse returns for: all trees to depth 2 over the leaf alphabet (incl. quoted wildcards, slash-delimited strings, "
                     "integer-valued floats, empty strings), sampled deeper trees and near misses (seed %d), every token sequence up to the bound "
                     "(both default-field settings) and every valid-UTF-8 symbol sequence up to the bound (non-ASCII text)" % run.seed)


GENJSON_CFG = """SPECIFICATION Spec
CONSTANTS
  OutFile = "docs.ndjson"
  Tier = "%s"
POSTCONDITION Post
CHECK_DEADLOCK FALSE
"""


def check_C13(run):
    run.assumptions += [
        "TLC 1.8.0 and the CommunityModules Json module evaluate the specification correctly",
        "documents: every combination of member values (all JSON kinds, empty strings, range-boundary look-alikes, nested expressions), operator "
        "names (each valid one, unknown, empty, wrong case), missing members and extra members generated by spec/GenJson.tla, one nesting level "
        "deeper by sampling; byte level: truncations and seeded single-byte mutations of those documents and of the encodings of parsed queries, "
        "and random byte strings",
        "panics are observed with recover(); a Go runtime fatal error (stack overflow) would abort the harness and be reported as broken machinery",
    ]
    d = run.sub("gen_json")
    out, rc, secs = run.tlc(d, "GenJson", GENJSON_CFG % run.tier, workers=1, timeout=3600, seed=run.seed, xss=True)
    m = re.search(r'"GENERATED (.*)"', out)
    if not m:
        raise Broken("GenJson failed: " + (run.tlc_error(out) or out[-600:]))
    g = json.loads(json.loads('"' + m.group(1) + '"'))
    run.stage("gen_json", secs=round(secs, 1), **g)
    docs = os.path.join(d, "docs.ndjson")
    # encodings of real parsed queries as further seeds for the byte-level mutations
    cases, gg = stage_gen_trees(run, checks_parser.DEEP_KINDS, 2 if run.tier == "quick" else 3, ws=0, sample=1500 if run.tier == "quick" else 20000)
    res, _, _ = stage_groups(run, cases, json=True, prints=True)
    n = 0
    with open(docs, "a") as f:
        for line in open(res):
            for c in json.loads(line)["cases"]:
                j = c.get("rt", {}).get("json")
                if j and c["kind"] == "min":
                    n += 1
                    f.write(json.dumps({"id": 1000000 + n, "doc": j}) + "\n")
    os.remove(res)
    run.stage("seed_docs", encodings_of_parsed_queries=n)
    resf = os.path.join(run.work, "json_docs.ndjson")
    quick = run.tier == "quick"
    s = run.harness(["json-docs", "-in", docs, "-out", resf, "-mutate", "3" if quick else "12", "-trunc-every", "25" if quick else "3",
                     "-random", "20000" if quick else "1000000", "-seed", str(run.seed)])
    run.stage("json_docs", **s)
    run.evaluations += s.get("docs", 0)
    for line in first_lines(resf, 40000)[-1:]:
        t = json.loads(line)
        run.add_sample({"kind": "document decoded", "doc": bytes(t[9]).decode("latin1"), "dec": t[2], "validate": t[3], "after_validate": t[4:9]})
    j, vfiles, dd = run.judge("judge_json", "JudgeJson", "C13", resf, unit=60000)
    run.traces += j["judged"]
    run.distinct += j["validated"]
    run.stage("judge_json", documents_judged=j["judged"], decoded_and_validated=j["validated"], failures=j["failures"], secs=j["secs"], jvms=j["jvms"])
    for vf in vfiles:
        run.add_verdicts(vf, lambda v: {"pipeline": "jsondoc", "codes": v.get("q")})
    run.exhaustive = True
    run.notes.append("schema documents enumerated by TLC; byte-level mutants seeded with %d; distinct_nontrivial counts documents that decode and validate" % run.seed)


def replay_jsondoc(run, rp):
    sub = Run(run.prop, run.tier, run.seed, replay=True)
    sub.work = run.sub("replay_%d" % len(os.listdir(run.work)))
    docs = os.path.join(sub.work, "one.ndjson")
    open(docs, "w").write(json.dumps({"id": 1, "doc": bytes(rp["codes"]).decode("latin1")}) + "\n")
    resf = os.path.join(sub.work, "res.ndjson")
    sub.harness(["json-docs", "-in", docs, "-out", resf, "-latin1"])
    j, vfiles, dd = sub.judge("judge_json", "JudgeJson", "C13", resf)
    return j["failures"] > 0


REPLAYERS["jsondoc"] = replay_jsondoc
CHECKS = {"C12": check_C12, "C13": check_C13}
